#!/bin/bash
# usage: tools_try_seed.sh <patch.diff> <tag> <CHECK> [<CHECK> ...]
# Applies a seeded change to a scratch worktree of /repo (never to /repo itself), confirms it builds and
# passes the pinned tests, runs the given quick checks against it through VERIF_REPO, then removes the worktree.
set -u
PATCH=$(readlink -f "$1"); TAG=$2; shift 2
WT=${SEEDRUN:-/tmp/seedrun}/$TAG
rm -rf "$WT"; mkdir -p ${SEEDRUN:-/tmp/seedrun}
git -C /repo worktree add -q --detach "$WT" HEAD || exit 3
cd "$WT"
if ! git apply "$PATCH"; then echo "RESULT $TAG patch-does-not-apply"; git -C /repo worktree remove --force "$WT"; exit 3; fi
export PYO3_PYTHON=/opt/veriftools/pyvenv/bin/python
T=$(cargo test --workspace --no-fail-fast --offline 2>&1 | grep -E "^test result" | awk '{p+=$4; f+=$6} END {print p" passed "f" failed"}')
echo "RESULT $TAG baseline-tests: $T"
export VERIF_REPO="$WT" VERIF_ALT_DIR=${SEEDRUN:-/tmp/seedrun}/alt-$TAG
for C in "$@"; do
  OUT=$(cd ${VERIF_HOME:-/verif} && ./check run "$C" quick 2>/dev/null | grep -E "^(OK|VIOLATION|INCONCLUSIVE|KNOWN|  what)" | head -4 | cut -c1-400)
  echo "RESULT $TAG $C :: $(echo "$OUT" | tr '\n' ' ')"
done
cd /
git -C /repo worktree remove --force "$WT"
rm -rf ${SEEDRUN:-/tmp/seedrun}/alt-$TAG-*
