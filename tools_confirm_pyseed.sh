#!/bin/bash
# usage: tools_confirm_pyseed.sh <prop> <X> — Python demos (C18/C19): build the extension without / with the patch, run demo.py <so> <root>
P=$1; X=$2; SRC=${SEEDROOT:-/tmp/seed}/$P/SEED/$X; ID=$P$X
WT=/tmp/seedconf/$ID; rm -rf $WT; mkdir -p /tmp/seedconf
git -C /repo worktree add -q --detach $WT HEAD || exit 3
build() { (cd $WT && PYO3_PYTHON=/opt/veriftools/pyvenv/bin/python cargo build --release -p bourse --offline >/dev/null 2>&1 && mkdir -p $WT/so_$1 && cp target/release/libbourse.so $WT/so_$1/core.cpython-311-x86_64-linux-gnu.so); }
build clean
/opt/veriftools/pyvenv/bin/python $SRC/demo.py $WT/so_clean/core.cpython-311-x86_64-linux-gnu.so $WT >/tmp/seedconf/$ID.without.log 2>&1; A=$?
(cd $WT && git apply $SRC/patch.diff) || { echo "CONFIRM $ID patch does not apply"; exit 3; }
build patched
/opt/veriftools/pyvenv/bin/python $SRC/demo.py $WT/so_patched/core.cpython-311-x86_64-linux-gnu.so $WT >/tmp/seedconf/$ID.with.log 2>&1; B=$?
echo "CONFIRM $ID demo.py exit without-patch:$A with-patch:$B"
git -C /repo worktree remove --force $WT
mkdir -p /verif/seeded/$ID; cp $SRC/patch.diff $SRC/README.md $SRC/demo.py /verif/seeded/$ID/
echo " demo.py:exit$A| demo.py:exit$B" > /verif/seeded/$ID/.confirm
