"""Minimal stand-in for tqdm."""


def trange(n, **kwargs):
    return range(n)


def tqdm(it, **kwargs):
    return it
