"""Minimal stand-in for pandas (not installable offline): records what the data-frame helpers ask for."""


class _Column:
    def __init__(self, values):
        self.values = list(values)

    def map(self, mapping):
        return _Column([mapping.get(v, v) for v in self.values])


class DataFrame:
    def __init__(self, columns, rows):
        self.columns = list(columns)
        self._rows = [tuple(r) for r in rows]

    @classmethod
    def from_records(cls, records, columns=None):
        records = list(records)
        if columns is None:
            raise ValueError("stub pandas: columns required")
        for r in records:
            if len(r) != len(columns):
                raise ValueError("stub pandas: %d columns passed, data had %d" % (len(columns), len(r)))
        return cls(columns, records)

    def __getitem__(self, name):
        i = self.columns.index(name)
        return _Column([r[i] for r in self._rows])

    def __setitem__(self, name, col):
        vals = col.values if isinstance(col, _Column) else list(col)
        if name in self.columns:
            i = self.columns.index(name)
            self._rows = [r[:i] + (v,) + r[i + 1:] for r, v in zip(self._rows, vals)]
        else:
            self.columns.append(name)
            self._rows = [r + (v,) for r, v in zip(self._rows, vals)]

    def column(self, name):
        i = self.columns.index(name)
        return [r[i] for r in self._rows]
