#!/usr/bin/env python3
"""Executor side of C18 / C19: runs call scripts generated (with expectations) by `bvmon` against the
real compiled extension module and reports every disagreement. Usage:
    run_scripts.py <scripts.json> <results.json>
Environment: PYTHONPATH must contain the assembled `bourse` package and the stub directory."""
import json
import os
import re
import sys
import traceback

import numpy as np

import bourse

CANON_L1 = ["trade_vol", "bid_price", "ask_price", "bid_vol", "ask_vol", "bid_touch_vol", "n_bid_touch", "ask_touch_vol", "n_ask_touch"]
DOC_L1 = {
    0: "Trade volume (in the last step)", 1: "Bid touch price", 2: "Ask touch price", 3: "Bid total volume",
    4: "Ask total volume", 5: "Bid touch volume", 6: "Number of buy orders at touch", 7: "Ask touch volume",
    8: "Number of sell orders at touch",
}
DOC_L2_HEAD = {k: DOC_L1[k] for k in range(5)}
DOC_L2_TAIL = ["Bid volume at level n", "Number of buy orders at level n", "Ask volume at level n", "Number of sell orders at level n"]
CANON_ORDER_COLS = ["side", "status", "arr_time", "end_time", "vol", "start_vol", "price", "trader_id", "order_id"]
CANON_TRADE_COLS = ["time", "side", "price", "vol", "active_id", "passive_id"]
CANON_MD_KEYS = ["bid_price", "ask_price", "bid_vol", "ask_vol", "trade_vol"] + [
    "%s_%d" % (p, i) for p in ("bid_vol", "ask_vol", "n_bid", "n_ask") for i in range(10)]


CANON_HEAD = ["trade_vol", "bid_price", "ask_price", "bid_vol", "ask_vol", "bid_touch_vol", "n_bid_touch", "ask_touch_vol", "n_ask_touch"]
CANON_TAIL = ["bid_vol_level", "n_bid_level", "ask_vol_level", "n_ask_level"]
# documented layout per (class name, method): {"head": [...quantity keys...], "tail": [...per-level keys...]}; filled by
# doc_tables() from the live docstrings, so the arrays are judged against what the documentation assigns to each index
LAYOUTS = {}


def classify(desc):
    """Map a documented row description to the quantity it names (None if it cannot be told)."""
    d = desc.lower()
    if "trade" in d:
        return "trade_vol"
    side = "bid" if re.search(r"\b(bid|buy)", d) else ("ask" if re.search(r"\b(ask|sell)", d) else None)
    if side is None:
        return None
    is_count = bool(re.search(r"number|count|orders", d))
    level = "level" in d
    if is_count:
        return ("n_%s_level" if level else "n_%s_touch") % side
    if "price" in d and "vol" not in d:
        return side + "_price"
    if "vol" in d:
        if level:
            return side + "_vol_level"
        if "touch" in d or "best" in d:
            return side + "_touch_vol"
        return side + "_vol"
    return None


def norm(x):
    if isinstance(x, np.ndarray):
        return [norm(v) for v in x.tolist()]
    if isinstance(x, (np.integer,)):
        return int(x)
    if isinstance(x, (np.bool_,)):
        return bool(x)
    if isinstance(x, (tuple, list)):
        return [norm(v) for v in x]
    if isinstance(x, dict):
        return {str(k): norm(v) for k, v in x.items()}
    return x


def scribble(x):
    """The caller overwrites what a call handed back (arrays in place, lists and dicts emptied). Every call of the
    Python classes returns freshly built values, so this must not be able to change what any later call returns."""
    n = 0
    if isinstance(x, np.ndarray):
        if x.flags.writeable and x.size:
            try:
                x[...] = np.iinfo(x.dtype).max - 5 if np.issubdtype(x.dtype, np.integer) else 1
                n += 1
            except Exception:  # noqa: BLE001
                pass
    elif isinstance(x, dict):
        for v in list(x.values()):
            n += scribble(v)
        x.clear()
        n += 1
    elif isinstance(x, list):
        for v in x:
            n += scribble(v)
        x.clear()
        n += 1
    elif isinstance(x, tuple):
        for v in x:
            n += scribble(v)
    return n


def build_arg(a):
    if isinstance(a, dict) and "np" in a:
        return np.array(a["data"], dtype=a["np"])
    if isinstance(a, dict) and "int" in a:
        return int(a["int"])
    if isinstance(a, dict) and "tuple" in a:
        return tuple(build_arg(v) for v in a["tuple"])
    return a


def make(kind, ctor):
    cls = {"orderbook": bourse.core.OrderBook, "stepenv": bourse.core.StepEnv, "stepenvnumpy": bourse.core.StepEnvNumpy}[kind]
    return cls(*ctor["args"], **ctor.get("kwargs", {}))


def doc_tables():
    """Index tables parsed from the live docstrings; a documentation change makes the run inconclusive."""
    out = {"problems": []}
    def parse_table(doc):
        """(head, tail): head = {index: quantity key} from rows 'index | description' in any table style (grid, simple,
        markdown, plain lists); tail = per-level quantity keys in documented order (rows '5 + 4n | description' sorted
        by their offset, or index-less rows that describe a per-level quantity, in order of appearance)."""
        head, tail_idx, tail_seq = {}, [], []
        for line in doc.splitlines():
            t = line.strip().strip("|+-=").strip()
            if not t:
                continue
            m = re.match(r"^(\d+)\s*\+\s*4\s*\*?\s*n\b[\s|:]*(.+?)[\s|]*$", t)
            if m:
                k = classify(m.group(2))
                if k and k.endswith("_level"):
                    tail_idx.append((int(m.group(1)), k))
                continue
            m = re.match(r"^(\d+)\s*[|:\s]\s*(.*\S)[\s|]*$", t)
            if m:
                k = classify(m.group(2))
                if k and not k.endswith("_level") and int(m.group(1)) not in head:
                    head[int(m.group(1))] = k
                continue
            k = classify(t)
            if k and k.endswith("_level") and len(t) < 60 and k not in tail_seq:
                tail_seq.append(k)
        tail = [k for _, k in sorted(tail_idx)] if tail_idx else tail_seq
        return head, tail

    for cls, meth, l2 in [(bourse.core.StepEnv, "level_1_data_array", False), (bourse.core.StepEnv, "level_2_data_array", True),
                          (bourse.core.StepEnvNumpy, "level_1_data", False), (bourse.core.StepEnvNumpy, "level_2_data", True)]:
        doc = getattr(cls, meth).__doc__ or ""
        table, tailk = parse_table(doc)
        n_head = 5 if l2 else 9
        head = [table.get(i) for i in range(n_head)]
        if not l2:
            tailk = []
        ok = None not in head and len(set(head)) == n_head and set(head) <= set(CANON_HEAD)
        if l2:
            ok = ok and sorted(tailk) == sorted(CANON_TAIL)
        if not ok:
            out["problems"].append("%s.%s: documented index table %r / per-level rows %r could not be mapped to quantities" % (cls.__name__, meth, table, tailk))
        else:
            LAYOUTS[(cls.__name__, meth)] = {"head": head, "tail": tailk}
            if head != CANON_HEAD[:n_head] or (l2 and tailk != CANON_TAIL):
                out.setdefault("layout_differs_from_pinned", []).append("%s.%s" % (cls.__name__, meth))
        out["%s.%s" % (cls.__name__, meth)] = {"head": head, "tail": tailk}
    keyrow = re.compile(r"`+((?:bid|ask)_(?:price|vol)(?:_<N>)?|trade_vol|n_(?:bid|ask)_<N>)`+")
    for cls in (bourse.core.StepEnv, bourse.core.StepEnvNumpy):
        doc = cls.get_market_data.__doc__ or ""
        keys = sorted(set(keyrow.findall(doc)))
        want = sorted(["bid_price", "ask_price", "bid_vol", "ask_vol", "trade_vol", "bid_vol_<N>", "ask_vol_<N>", "n_bid_<N>", "n_ask_<N>"])
        if keys != want:
            out["problems"].append("%s.get_market_data: documented keys %r differ from %r" % (cls.__name__, keys, want))
    for fn, want in [(bourse.data_processing.orders_to_dataframe, CANON_ORDER_COLS), (bourse.data_processing.trades_to_dataframe, CANON_TRADE_COLS)]:
        doc = fn.__doc__ or ""
        names = re.findall(r"- ``([a-z_]+)``:", doc)
        # documented names must appear in the canonical order (the trade helper's list omits `price`)
        it = iter(want)
        if not all(n in it for n in names) or len(names) < len(want) - 1:
            out["problems"].append("%s: documented columns %r are not the canonical %r" % (fn.__name__, names, want))
        out[fn.__name__] = names
    return out


def dataframe_checks(orders, trades):
    """Run both helpers for real (against the stub pandas) and report the column layout."""
    res = []
    for fn, rows, want in [(bourse.data_processing.orders_to_dataframe, orders, CANON_ORDER_COLS), (bourse.data_processing.trades_to_dataframe, trades, CANON_TRADE_COLS)]:
        df = fn([tuple(r) for r in rows])
        cols = list(df.columns)
        ok = cols == want
        detail = ""
        if ok and rows:
            # every column carries the field it is named after
            for i, name in enumerate(want):
                got = df.column(name)
                exp = [r[i] for r in rows]
                if name == "side":
                    exp = [{True: "bid", False: "ask"}[bool(v)] for v in exp]
                if name == "status":
                    exp = [{0: "new", 1: "active", 2: "filled", 3: "cancelled", 4: "rejected"}[v] for v in exp]
                if [norm(g) for g in got] != [norm(e) for e in exp]:
                    ok = False
                    detail = "column %r does not hold field %d" % (name, i)
                    break
        res.append({"helper": fn.__name__, "columns": cols, "expected": want, "ok": ok, "detail": detail, "rows": len(rows)})
    return res


PMAX = 2 ** 32 - 1


class SelfOracle:
    """C19: the documented quantities recomputed from get_orders() / get_trades() of the *same* Python object, so
    that the layout verdict does not depend on the object following the Rust twin's shuffle (that is C18's business).
    Order tuples: (side, status, arr_time, end_time, vol, start_vol, price, trader_id, order_id); trade tuples:
    (time, side, price, vol, active_id, passive_id)."""

    def __init__(self, ctor, cls_name="StepEnv"):
        self.cls_name = cls_name
        _, self.t0, self.tick, self.step_size = ctor["args"][:4]
        self.steps = 0
        self.n_trades = 0
        self.series = {k: [] for k in CANON_MD_KEYS}
        # before the first step the environment describes the empty book it was constructed with
        self.row = [0, 0, PMAX, 0, 0] + [0] * 40

    def after_step(self, obj):
        self.steps += 1
        orders = norm(obj.get_orders())
        trades = norm(obj.get_trades())
        lo = self.t0 + (self.steps - 1) * self.step_size
        if self.step_size > 0:
            traded = sum(t[3] for t in trades if lo <= t[0] < lo + self.step_size)
        else:
            # the clock never moves: the step's trades are the growth of the log since the end of the previous step
            traded = sum(t[3] for t in trades[self.n_trades:])
        self.n_trades = len(trades)
        act = [o for o in orders if o[1] == 1]
        bids = [o for o in act if o[0]]
        asks = [o for o in act if not o[0]]
        bb = max((o[6] for o in bids), default=0)
        ba = min((o[6] for o in asks), default=PMAX)
        lv = []
        for i in range(10):
            pb, pa = bb - i * self.tick, ba + i * self.tick
            b = [o for o in bids if o[6] == pb]
            a = [o for o in asks if o[6] == pa]
            lv.append((sum(o[4] for o in b), len(b), sum(o[4] for o in a), len(a)))
        self.row = [traded, bb, ba, sum(o[4] for o in bids), sum(o[4] for o in asks)] + [x for l in lv for x in l]
        for k, v in zip(["trade_vol", "bid_price", "ask_price", "bid_vol", "ask_vol"], [self.row[0], bb, ba, self.row[3], self.row[4]]):
            self.series[k].append(v)
        for i, l in enumerate(lv):
            for name, v in zip(("bid_vol", "n_bid", "ask_vol", "n_ask"), l):
                self.series["%s_%d" % (name, i)].append(v)

    def expected(self, m):
        """documented value of call `m`, or None when this oracle has no opinion"""
        if self.row is None:
            return None
        se = self.series
        if m in ("level_1_data", "level_1_data_array", "level_2_data", "level_2_data_array"):
            lay = LAYOUTS.get((self.cls_name, m), {"head": CANON_HEAD[:5 if "2" in m else 9], "tail": CANON_TAIL if "2" in m else []})
            r = self.row
            q = dict(zip(CANON_HEAD[:5], r[:5]))
            q.update({"bid_touch_vol": r[5], "n_bid_touch": r[6], "ask_touch_vol": r[7], "n_ask_touch": r[8]})
            out = [q[k] for k in lay["head"]]
            for i in range(10 if lay["tail"] else 0):
                lv = dict(zip(CANON_TAIL, r[5 + 4 * i: 9 + 4 * i]))
                out += [lv[k] for k in lay["tail"]]
            return out
        return {
            "get_prices": [se["bid_price"], se["ask_price"]], "get_volumes": [se["bid_vol"], se["ask_vol"]],
            "get_touch_volumes": [se["bid_vol_0"], se["ask_vol_0"]], "get_touch_order_counts": [se["n_bid_0"], se["n_ask_0"]],
            "get_trade_volumes": se["trade_vol"],
        }.get(m)


# ---------------------------------------------------------------------------------------------------------------
# C18 second opinion for StepEnv scripts whose values differ from the Rust twin's.
# The twin is bourse_de::Env stepped with Xoroshiro128**::seed_from_u64(seed) - the generator the binding (and the
# core's own runners) use. A binding that owns another generator is still a transparent view of the core as long as
# every step applies exactly the submitted batch in *some* order: this replays the script, infers each step's
# processing order from the time-stamps the object shows, reproduces the object's orders and trades on a plain
# Python OrderBook (itself compared with the core by the OrderBook scripts), recomputes every scripted getter from
# get_orders()/get_trades() of the same object, and checks determinism on a second object. What a single step cannot
# show - instructions dropped before the shuffle leave the last time slot of the batch unused - is tested over all
# steps with a Hoeffding bound (main()).
# ---------------------------------------------------------------------------------------------------------------
import itertools


def _is_market(o):
    return (o[0] and o[6] == PMAX) or ((not o[0]) and o[6] == 0)


def _book_summary(orders):
    act = [o for o in orders if o[1] == 1]
    bids = [o for o in act if o[0]]
    asks = [o for o in act if not o[0]]
    bb = max((o[6] for o in bids), default=0)
    ba = min((o[6] for o in asks), default=PMAX)
    tb = [o for o in bids if o[6] == bb]
    ta = [o for o in asks if o[6] == ba]
    return {"bid_ask": [bb, ba], "bid_vol": sum(o[4] for o in bids), "ask_vol": sum(o[4] for o in asks),
            "best_bid_vol": sum(o[4] for o in tb), "best_ask_vol": sum(o[4] for o in ta),
            "best_bid_vol_and_orders": [sum(o[4] for o in tb), len(tb)], "best_ask_vol_and_orders": [sum(o[4] for o in ta), len(ta)]}


def _replay(t0, tick, trading0, history):
    """history: [("trading", flag) | ("step", start, step_size, [instructions in processing order])] -> (orders, trades)
    in the environment's id space (None where the plain book has no such order yet)."""
    ob = bourse.core.OrderBook(t0, tick, trading0)
    idmap, inv = {}, {}
    for h in history:
        if h[0] == "trading":
            (ob.enable_trading if h[1] else ob.disable_trading)()
            continue
        _, start, step_size, order = h
        for i, ins in enumerate(order):
            ob.set_time(start + i)
            if ins[0] == "new":
                sid = ob.place_order(ins[2], ins[3], ins[4], price=ins[5])
                idmap[ins[1]] = sid
                inv[sid] = ins[1]
            elif ins[0] == "cancel":
                if ins[1] in idmap:
                    ob.cancel_order(idmap[ins[1]])
            elif ins[1] in idmap:
                ob.modify_order(idmap[ins[1]], new_price=ins[2], new_vol=ins[3])
        ob.set_time(start + step_size)
    so = norm(ob.get_orders())
    st = norm(ob.get_trades())
    orders = {e: so[sid][:8] + [e] for e, sid in idmap.items()}
    trades = [[t[0], t[1], t[2], t[3], inv.get(t[4]), inv.get(t[5])] for t in st]
    return orders, trades, ob


def _signature(ob):
    """complete state of a plain book incl. queue keys (its JSON snapshot): hypotheses with equal signatures are one"""
    import tempfile
    fd, path = tempfile.mkstemp(suffix=".json")
    os.close(fd)
    try:
        ob.save_json_snapshot(path, False)
        return open(path).read()
    finally:
        os.unlink(path)


def stepenv_second_opinion(s, stats):
    """('consistent', None) | ('violation', detail) | ('unsettled', why)"""
    seed, t0, tick, step_size = s["ctor"]["args"][:4]
    trading0 = s["ctor"].get("kwargs", {}).get("trading", True)
    env, env2 = make(s["kind"], s["ctor"]), make(s["kind"], s["ctor"])
    hyps, batch = [[]], []
    now, steps = t0, 0
    orders, trades = [], []        # as of the last step
    pending_new = []               # records of orders submitted since
    for ci, c in enumerate(s["calls"]):
        m = c["m"]
        if m.startswith("__"):
            continue
        args = [build_arg(a) for a in c.get("args", [])]
        kwargs = {k: build_arg(v) for k, v in c.get("kwargs", {}).items()}
        res = []
        for e in (env, env2):
            try:
                res.append(("v", norm(getattr(e, m) if c.get("prop") else getattr(e, m)(*args, **kwargs))))
            except BaseException as ex:  # noqa: BLE001
                res.append(("exc", type(ex).__name__))
        if res[0] != res[1]:
            return "violation", "call %d %s: two StepEnv objects built from the same seed disagree: %r vs %r" % (ci, m, res[0], res[1])
        kind, got = res[0]
        exp = c["expect"]
        if "exc" in exp or kind == "exc":
            if kind != "exc" or exp.get("exc") != got:
                return "violation", "call %d %s: expected %r got %r" % (ci, m, exp, res[0])
            continue
        if m == "place_order":
            n_before = len(orders) + len(pending_new)
            if got != n_before:
                return "violation", "call %d place_order returned id %r, expected the next id %d" % (ci, got, n_before)
            bid, vol, trader = args[0], args[1], args[2]
            price = kwargs.get("price", args[3] if len(args) > 3 else None)
            batch.append(("new", got, bid, vol, trader, price))
            pending_new.append([bool(bid), 0, now, 2 ** 64 - 1, vol, vol, price if price is not None else (PMAX if bid else 0), trader, got])
        elif m == "cancel_order":
            batch.append(("cancel", args[0]))
        elif m == "modify_order":
            np_ = kwargs.get("new_price", args[1] if len(args) > 1 else None)
            nv_ = kwargs.get("new_vol", args[2] if len(args) > 2 else None)
            batch.append(("modify", args[0], np_, nv_))
        elif m in ("enable_trading", "disable_trading"):
            hyps = [h + [("trading", m == "enable_trading")] for h in hyps]
        elif m == "step":
            post, ptr = norm(env.get_orders()), norm(env.get_trades())
            n, start = len(batch), now
            slot, used = {}, set()
            for k, ins in enumerate(batch):
                if ins[0] == "new":
                    o = post[ins[1]]
                    sl = o[2] - start
                    if o[1] == 0 or not (0 <= sl < n) or sl in used:
                        return "violation", "step %d: new order %d shows status %d / arrival %d for a batch of %d starting at %d" % (steps, ins[1], o[1], o[2], n, start)
                    slot[k] = sl
                    used.add(sl)
            prev = orders + pending_new
            seen = set()
            for k, ins in enumerate(batch):
                if ins[0] == "cancel" and ins[1] not in seen and ins[1] < len(post):
                    seen.add(ins[1])
                    o = post[ins[1]]
                    if not _is_market(o) and o[1] == 3 and prev[ins[1]][1] != 3:
                        sl = o[3] - start
                        if not (0 <= sl < n) or sl in used:
                            return "violation", "step %d: order %d cancelled at %d, not a free slot of the batch" % (steps, ins[1], o[3])
                        slot[k] = sl
                        used.add(sl)
            # a re-pricing that traded shows its slot through the trade's time-stamp (active id = the modified order)
            new_slot_of = {ins[1]: slot[k] for k, ins in enumerate(batch) if ins[0] == "new"}
            for t in ptr[len(trades):]:
                sl = t[0] - start
                oid = t[4]
                if 0 <= sl < n and sl not in used and new_slot_of.get(oid) != sl:
                    cands = [k for k, ins in enumerate(batch) if ins[0] == "modify" and ins[1] == oid and k not in slot]
                    if cands and all(batch[k] == batch[cands[0]] for k in cands):
                        slot[cands[0]] = sl
                        used.add(sl)
            unknown = [k for k in range(n) if k not in slot]
            free = [i for i in range(n) if i not in used]
            if len(unknown) > 7:
                return "unsettled", "step %d: %d instructions without a visible time-stamp" % (steps, len(unknown))
            # every processing order consistent with what the object shows is kept (two re-queuing modifications may
            # leave identical records now and differ only in queue order, which a later fill reveals)
            new_hyps, tried, sigs = [], set(), set()
            for perm in itertools.permutations(unknown):
                key = tuple(batch[k] for k in perm)
                if key in tried:
                    continue
                tried.add(key)
                order = [None] * n
                for k, sl in slot.items():
                    order[sl] = batch[k]
                for k, sl in zip(perm, free):
                    order[sl] = batch[k]
                for h in hyps:
                    ro, rt, ob = _replay(t0, tick, trading0, h + [("step", start, step_size, order)])
                    if rt == ptr and len(post) == len(prev) and all((ro.get(i) == post[i]) if i in ro else post[i][1] == 0 for i in range(len(post))):
                        sig = _signature(ob)
                        if sig not in sigs:
                            sigs.add(sig)
                            new_hyps.append(h + [("step", start, step_size, order)])
            if len(new_hyps) > 64:
                return "unsettled", "step %d: more than 64 distinguishable schedules are consistent with what the object shows" % steps
            if not new_hyps:
                return "violation", "step %d: no processing order of the %d submitted instructions reproduces get_orders()/get_trades() on a plain OrderBook" % (steps, n)
            hyps = new_hyps
            if os.environ.get('BVMON_DEBUG_HYPS'):
                print('step', steps, 'n', n, 'unknown', len(unknown), 'hyps', len(hyps), file=sys.stderr)
            found = (hyps[0][-1][3], None)
            n_new = sum(1 for ins in batch if ins[0] == "new")
            if n >= 2 and 0 < n_new < n:
                # new orders always show their slot: under a uniform shuffle of the whole batch the last slot holds one
                # of them with probability n_new / n
                stats.append((n_new / n, 1 if found[0][n - 1][0] == "new" else 0))
            orders, trades, pending_new, batch = post, ptr, [], []
            now += step_size
            steps += 1
        # every scripted value recomputed from the object's own order and trade lists
        cur = orders + pending_new
        want = None
        if m == "get_orders":
            want = cur
        elif m == "get_trades":
            want = trades
        elif m == "time":
            want = now
        elif m == "trade_vol":
            want = sum(t[3] for t in trades if now - step_size <= t[0] < now) if steps else 0
        elif m == "order_status":
            want = cur[args[0]][1]
        elif m in ("bid_ask", "bid_vol", "ask_vol", "best_bid_vol", "best_ask_vol", "best_bid_vol_and_orders", "best_ask_vol_and_orders"):
            want = _book_summary(orders)[m]
        elif m in ("step", "place_order", "cancel_order", "modify_order", "enable_trading", "disable_trading"):
            continue
        else:
            return "unsettled", "call %d: no independent expectation for %s" % (ci, m)
        if got != want:
            return "violation", "call %d %s: returned %r, recomputed from the object's own orders/trades %r" % (ci, m, got, want)
    return "consistent", None


def run_script(s, out):
    try:
        obj = make(s["kind"], s["ctor"])
    except BaseException:  # noqa: BLE001
        if s.get("optional_ctor"):
            # a degenerate configuration (step size 0) that an implementation may legitimately refuse: nothing to judge
            out["skipped_scripts"] = out.get("skipped_scripts", 0) + 1
            return
        raise
    last_orders, last_trades = [], []
    oracle = SelfOracle(s["ctor"], {"stepenv": "StepEnv", "stepenvnumpy": "StepEnvNumpy"}.get(s["kind"], "StepEnv")) if s.get("self_oracle") else None
    diverged = False  # the object's state no longer follows the Rust twin (different shuffle): later values are not compared with it
    for ci, c in enumerate(s["calls"]):
        m = c["m"]
        out["executed"] += 1
        exp = c["expect"]
        try:
            if m == "__new__":
                # construct a throw-away object (constructor argument conversion / defaults)
                tmp = make(c["kind"], {"args": [build_arg(a) for a in c.get("args", [])], "kwargs": c.get("kwargs", {})})
                got = norm(getattr(tmp, c["probe"])()) if c.get("probe") and not c.get("probe_prop") else (norm(getattr(tmp, c["probe"])) if c.get("probe") else None)
            elif m == "__load__":
                obj = bourse.core.order_book_from_json(c["args"][0])
                got = None
            elif m == "__save__":
                obj.save_json_snapshot(c["args"][0], c["args"][1])
                got = None
            elif c.get("prop"):
                got = getattr(obj, m)
            else:
                args = [build_arg(a) for a in c.get("args", [])]
                kwargs = {k: build_arg(v) for k, v in c.get("kwargs", {}).items()}
                got = getattr(obj, m)(*args, **kwargs)
            got_n = norm(got)
            if (ci + len(s["calls"])) % 3 == 0:
                out["returns_overwritten_by_caller"] += scribble(got)
            if m == "get_orders":
                last_orders = got_n
            if m == "get_trades":
                last_trades = got_n
            if oracle is not None and m == "step":
                oracle.after_step(obj)
            if oracle is not None and "exc" not in exp:
                # verdict of C19: the value the same object's order and trade lists assign to the documented position
                if "keys" in exp:
                    if sorted(got_n.keys()) != sorted(CANON_MD_KEYS):
                        out["mismatches"].append({"script": s["id"], "call": ci, "m": m, "expected": sorted(CANON_MD_KEYS), "got": sorted(got_n.keys()), "what": "dictionary keys"})
                        return
                    for k in CANON_MD_KEYS:
                        if got_n[k] != oracle.series[k]:
                            out["mismatches"].append({"script": s["id"], "call": ci, "m": m, "expected": {k: oracle.series[k]}, "got": {k: got_n[k]}, "what": "series bound to key %r" % k})
                            return
                    out["self_oracle_checks"] += 1
                else:
                    pe = oracle.expected(m)
                    if pe is not None:
                        if got_n != pe:
                            what = "return value"
                            if c.get("layout"):
                                if len(pe) != len(got_n):
                                    what = "array length %d, documented %d" % (len(got_n), len(pe))
                                else:
                                    k = next(i for i in range(len(got_n)) if got_n[i] != pe[i])
                                    what = "array element %d holds %r, documented quantity there is %r" % (k, got_n[k], pe[k])
                            out["mismatches"].append({"script": s["id"], "call": ci, "m": m, "expected": pe, "got": got_n, "what": what, "oracle": "recomputed from get_orders/get_trades of the same object"})
                            return
                        out["self_oracle_checks"] += 1
                if c.get("layout") and (oracle.cls_name, m) in LAYOUTS and (LAYOUTS[(oracle.cls_name, m)]["head"] != CANON_HEAD[:len(LAYOUTS[(oracle.cls_name, m)]["head"])] or LAYOUTS[(oracle.cls_name, m)]["tail"] not in ([], CANON_TAIL)):
                    out["layout_checks"] += 1
                    if c.get("asym"):
                        out["asymmetric_layout_checks"] += 1
                    continue
                twin = exp["v"] if "keys" not in exp else None
                if "keys" in exp:
                    twin_ok = all(got_n.get(k) == v for k, v in exp["v"].items())
                else:
                    twin_ok = got_n == twin
                if not twin_ok and (oracle.expected(m) is not None or "keys" in exp or diverged or m in ("get_orders", "get_trades")):
                    # documented layout confirmed on the object itself, but the state differs from the Rust twin's
                    if not diverged:
                        out["twin_divergences"] += 1
                    diverged = True
                if diverged:
                    if c.get("layout"):
                        out["layout_checks"] += 1
                        if c.get("asym"):
                            out["asymmetric_layout_checks"] += 1
                    if "keys" in exp:
                        out["dict_checks"] += 1
                    continue
            if "exc" in exp:
                out["mismatches"].append({"script": s["id"], "call": ci, "m": m, "args": c.get("args"), "kwargs": c.get("kwargs"), "expected": exp, "got": got_n, "what": "expected exception, call returned"})
                return
            if "keys" in exp:
                if sorted(got_n.keys()) != sorted(exp["keys"]):
                    out["mismatches"].append({"script": s["id"], "call": ci, "m": m, "expected": sorted(exp["keys"]), "got": sorted(got_n.keys()), "what": "dictionary keys"})
                    return
                for k, v in exp["v"].items():
                    if got_n[k] != v:
                        out["mismatches"].append({"script": s["id"], "call": ci, "m": m, "expected": {k: v}, "got": {k: got_n[k]}, "what": "series bound to key %r" % k})
                        return
                out["dict_checks"] += 1
            elif got_n != exp["v"] and s["kind"] == "stepenv" and oracle is None and "second_opinion" not in s:
                s["second_opinion"] = stepenv_second_opinion(s, out["alt_stats"])
                verdict, detail = s["second_opinion"]
                if verdict == "unsettled":
                    out["alt_unsettled_scripts"] += 1
                    return
                if verdict == "consistent":
                    out["alt_schedule_scripts"] += 1
                    if out["alt_first_mismatch"] is None:
                        out["alt_first_mismatch"] = {"script": s["id"], "call": ci, "m": m, "args": c.get("args"), "kwargs": c.get("kwargs"), "expected": exp["v"], "got": got_n, "what": "return value"}
                    return
                out["mismatches"].append({"script": s["id"], "call": ci, "m": m, "args": c.get("args"), "kwargs": c.get("kwargs"), "expected": exp["v"], "got": got_n, "what": "return value", "second_opinion": "%s: %s" % (verdict, detail)})
                return
            elif got_n != exp["v"]:
                what = "return value"
                if isinstance(exp["v"], list) and isinstance(got_n, list) and c.get("layout"):
                    if len(exp["v"]) != len(got_n):
                        what = "array length %d, documented %d" % (len(got_n), len(exp["v"]))
                    else:
                        k = next(i for i in range(len(got_n)) if got_n[i] != exp["v"][i])
                        what = "array element %d holds %r, documented quantity there is %r" % (k, got_n[k], exp["v"][k])
                out["mismatches"].append({"script": s["id"], "call": ci, "m": m, "args": c.get("args"), "kwargs": c.get("kwargs"), "expected": exp["v"], "got": got_n, "what": what})
                return
            if c.get("layout"):
                out["layout_checks"] += 1
                if c.get("asym"):
                    out["asymmetric_layout_checks"] += 1
        except BaseException as e:  # noqa: BLE001 - PanicException derives from BaseException
            name = type(e).__name__
            out["exceptions"] += 1
            if exp.get("exc") != name:
                out["mismatches"].append({"script": s["id"], "call": ci, "m": m, "args": c.get("args"), "kwargs": c.get("kwargs"), "expected": exp, "got": "%s: %s" % (name, e), "what": "exception class"})
                return
    if s.get("dataframes"):
        for r in dataframe_checks(last_orders, last_trades):
            out["dataframe_checks"] += 1
            if not r["ok"]:
                out["mismatches"].append({"script": s["id"], "call": -1, "m": r["helper"], "expected": r["expected"], "got": r["columns"], "what": "data-frame columns " + r["detail"]})


def main():
    doc = json.load(open(sys.argv[1]))
    out = {"executed": 0, "exceptions": 0, "mismatches": [], "layout_checks": 0, "asymmetric_layout_checks": 0, "dict_checks": 0, "dataframe_checks": 0, "scripts": 0, "errors": [], "self_oracle_checks": 0, "twin_divergences": 0, "alt_schedule_scripts": 0, "alt_unsettled_scripts": 0, "alt_stats": [], "alt_first_mismatch": None, "returns_overwritten_by_caller": 0}
    if doc.get("doc_tables"):
        out["doc"] = doc_tables()
    for s in doc["scripts"]:
        try:
            run_script(s, out)
            out["scripts"] += 1
        except BaseException as e:  # noqa: BLE001
            out["errors"].append({"script": s["id"], "error": "%s: %s" % (type(e).__name__, e), "trace": traceback.format_exc()[-1500:]})
        if len(out["mismatches"]) >= 20:
            break
    # scripts that followed another (valid) schedule than the Rust twin: were instructions dropped before the shuffle?
    st = out.pop("alt_stats")
    out["alt_schedule_steps_tested"] = len(st)
    if st:
        import math
        k, x, mu = len(st), sum(v for _, v in st), sum(p for p, _ in st)
        thr = math.sqrt(0.5 * k * math.log(2 / 1e-9))
        out["alt_schedule_last_slot"] = {"steps": k, "last_slot_holds_a_new_order": x, "expected": round(mu, 1), "hoeffding_threshold": round(thr, 1)}
        if abs(x - mu) > thr and out["alt_first_mismatch"] is not None:
            mm = dict(out["alt_first_mismatch"])
            mm["second_opinion"] = "every step is some processing order of its batch, but over %d steps the last time slot of the batch held a new order %d times where a uniform shuffle of the whole batch gives %.0f +- %.0f: instructions are dropped, added or re-ordered before the shuffle" % (k, x, mu, thr)
            out["mismatches"].append(mm)
    out["numpy"] = np.__version__
    out["python"] = sys.version.split()[0]
    json.dump(out, open(sys.argv[2], "w"))


if __name__ == "__main__":
    main()
