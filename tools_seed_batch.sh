#!/bin/bash
# usage: tools_seed_batch.sh "<prop>:<X>:<checks...>" ...   (reads /tmp/seed/<prop>/SEED/<X>/patch.diff), 4 at a time
mkdir -p ${SEEDRUN:-/tmp/seedrun}/logs
run() { IFS=: read P X CH <<<"$1"; /verif/tools_try_seed.sh ${SEEDROOT:-/tmp/seed}/$P/SEED/$X/patch.diff $P$X $CH > ${SEEDRUN:-/tmp/seedrun}/logs/$P$X.log 2>&1; }
export -f run
printf '%s\n' "$@" | xargs -P 4 -I{} bash -c 'run "{}"'
cat ${SEEDRUN:-/tmp/seedrun}/logs/*.log | grep RESULT
