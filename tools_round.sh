#!/bin/bash
# usage: SEEDROOT=/tmp/seed3 tools_round.sh <prop> <X> [checks...]  — confirm the demo (without/with patch), then run the owning quick check(s) against the change
P=$1; X=$2; shift 2; CH=${*:-$P}
export SEEDROOT=${SEEDROOT:-/tmp/seed3}
if [ -f $SEEDROOT/$P/SEED/$X/demo.py ]; then /verif/tools_confirm_pyseed.sh $P $X; else /verif/tools_confirm_seed.sh $P $X; fi 2>&1 | grep CONFIRM
/verif/tools_try_seed.sh $SEEDROOT/$P/SEED/$X/patch.diff $P$X $CH 2>&1 | grep RESULT
