//! C17 — momentum agents trade symmetrically in rising and falling markets.

use crate::c16::{Host, Multi, Single};
use crate::envlib::SimEnv;
use crate::model::*;
use crate::real::RealBook;
use crate::report::{floors, Ctx, Violation};
use crate::util::{bernstein_t, catch, Distinct, Fnv, Sm};
use bourse_de::agents::{MomentumAgent, MomentumMarketAgent, MomentumParams};
use rand_xoshiro::rand_core::SeedableRng;
use rand_xoshiro::Xoroshiro128StarStar;
use serde::{Deserialize, Serialize};
use serde_json::json;
use std::sync::atomic::{AtomicUsize, Ordering};
use std::sync::Mutex;

#[derive(Clone, Debug, Serialize, Deserialize)]
pub struct MomCfg {
    pub market: bool,
    pub asset: usize,
    pub ticks: Vec<u32>,
    pub n_agents: u16,
    pub id_start: u32,
    pub trade_vol: u32,
    pub decay: f64,
    pub demand: f64,
    pub scale: f64,
    pub order_ratio: f64,
    pub mu: f64,
    pub sigma: f64,
    /// mid-price path in half ticks (mid = k * tick / 2)
    pub path: Vec<u32>,
    pub agent_seed: u64,
    pub shuffle_seed: u64,
    /// the whole path runs in a no-trading period and the harness quotes are *crossed* (bid above ask, by a width that
    /// varies from step to step) around the same imposed mid
    #[serde(default)]
    pub halted: bool,
}

#[derive(Clone, Debug, PartialEq, Serialize)]
pub struct Flow {
    pub step: usize,
    pub trader: u32,
    pub market: bool,
    pub bid: bool,
    pub vol: u32,
}

#[derive(Clone, Debug, Default, Serialize)]
pub struct MomCensus {
    pub paths: u64,
    pub updates: u64,
    pub saturated_updates: u64,
    pub saturated_buy_updates: u64,
    pub saturated_sell_updates: u64,
    pub zero_momentum_updates: u64,
    pub reversal_updates: u64,
    pub orders: u64,
    pub buys: u64,
    pub sells: u64,
    pub limit_orders: u64,
    pub mirrored_pairs: u64,
    pub mirrored_orders_compared: u64,
    pub multi_asset_paths: u64,
    pub negative_demand_or_scale_paths: u64,
    pub unsaturated_trials: u64,
    pub unsaturated_limit_trials: u64,
    pub half_tick_mids: u64,
    pub halted_crossed_paths: u64,
    pub hold_updates_with_momentum: u64,
}
impl MomCensus {
    fn merge(&mut self, o: &MomCensus) {
        macro_rules! add { ($($f:ident),*) => { $( self.$f += o.$f; )* } }
        add!(paths, updates, saturated_updates, saturated_buy_updates, saturated_sell_updates, zero_momentum_updates, reversal_updates, orders, buys, sells, limit_orders, mirrored_pairs, mirrored_orders_compared, multi_asset_paths, negative_demand_or_scale_paths, unsaturated_trials, unsaturated_limit_trials, half_tick_mids, halted_crossed_paths, hold_updates_with_momentum);
    }
}

const QUOTER: u32 = 4_000_000;

fn params(c: &MomCfg) -> MomentumParams {
    MomentumParams { tick_size: c.ticks[c.asset], p_cancel: 0.5, trade_vol: c.trade_vol, decay: c.decay, demand: c.demand, scale: c.scale, order_ratio: c.order_ratio, price_dist_mu: c.mu, price_dist_sigma: c.sigma }
}

pub fn run_path(c: &MomCfg, cs: &mut MomCensus, tallies: &mut Vec<(u64, u64, f64)>) -> Result<Vec<Flow>, (String, String)> {
    if c.market {
        run_host(Multi(MomentumMarketAgent::new(c.id_start, c.n_agents, c.asset, params(c))), c, cs, tallies)
    } else {
        run_host(Single(MomentumAgent::new(c.id_start, c.n_agents, params(c))), c, cs, tallies)
    }
}

fn run_host<H: Host>(mut host: H, c: &MomCfg, cs: &mut MomCensus, tallies: &mut Vec<(u64, u64, f64)>) -> Result<Vec<Flow>, (String, String)> {
    let bad = |k: &str, d: String| -> Result<Vec<Flow>, (String, String)> { Err((k.to_string(), d)) };
    let a = c.asset;
    let tick = c.ticks[a];
    let mut env = <H::E as SimEnv>::create(0, &c.ticks, 100, !c.halted);
    if c.halted {
        cs.halted_crossed_paths += 1;
    }
    let mut shuffle = Xoroshiro128StarStar::seed_from_u64(c.shuffle_seed);
    let mut arng = Xoroshiro128StarStar::seed_from_u64(c.agent_seed);
    let n = c.n_agents as f64;
    let mut flows = Vec::new();
    let mut m = 0.0f64;
    let mut last: Option<f64> = None;
    cs.paths += 1;
    if c.market {
        cs.multi_asset_paths += 1;
    }
    if c.demand < 0.0 || c.scale < 0.0 {
        cs.negative_demand_or_scale_paths += 1;
    }
    for (step, k) in c.path.iter().enumerate() {
        // harness-only steps: cancel everything, then quote one tick either side of the level
        for o in env.env_orders(a) {
            if o.status == ACTIVE {
                env.cancel(a, o.id);
            }
        }
        env.do_step(&mut shuffle);
        // the path is given in HALF ticks: even values are mids on the grid (two-tick spread), odd
        // values are half-tick mids (one-tick spread), so mid moves of half a tick occur too
        let (bk, ak) = if c.halted {
            // crossed quotes with bid + ask = k ticks: the mid is still k/2 ticks, the spread is negative and changes
            let w = 1 + ((c.shuffle_seed >> (step % 32)) & 3) as u32;
            ((k + 1) / 2 + w, k / 2 - w)
        } else if k % 2 == 0 {
            (k / 2 - 1, k / 2 + 1)
        } else {
            ((k - 1) / 2, (k + 1) / 2)
        };
        env.place(a, true, 1_000_000, QUOTER, Some(bk * tick)).map_err(|e| ("harness".to_string(), e))?;
        env.place(a, false, 1_000_000, QUOTER, Some(ak * tick)).map_err(|e| ("harness".to_string(), e))?;
        env.do_step(&mut shuffle);
        let mid = match env.book(a).views().mid.map(f64::from_bits) {
            Some(x) => x,
            None => return bad("mid_price_unavailable", "mid_price panicked".into()),
        };
        let level = (*k as f64) * (tick as f64) / 2.0;
        if mid != level {
            return bad("harness", format!("quotes did not produce the intended mid {} (got {})", level, mid));
        }
        if k % 2 == 1 {
            cs.half_tick_mids += 1;
        }
        // the documented signal, recomputed from the mids the monitor observed
        let (m_new, p) = match last {
            Some(lp) => {
                let mm = m * (1.0 - c.decay) + c.decay * (mid - lp);
                (mm, c.demand * f64::tanh(c.scale * mm) / n)
            }
            None => (0.0, 0.0),
        };
        if let Some(lp) = last {
            if (mid - lp) * m_new < 0.0 {
                cs.reversal_updates += 1; // sign(M) differs from sign(P - p)
            }
            if mid == lp && m_new != 0.0 {
                cs.hold_updates_with_momentum += 1; // unchanged mid, momentum only fades
            }
        }
        let before = env.env_orders(a).len();
        if let Err(pn) = catch(|| host.update(&mut env, &mut arng)) {
            return bad("abort_in_update", pn);
        }
        cs.updates += 1;
        let created: Vec<ROrder> = env.env_orders(a)[before..].to_vec();
        let mut per_trader: std::collections::BTreeMap<u32, (u32, u32)> = Default::default();
        for o in &created {
            let is_market = (o.bid && o.price == PMAX) || (!o.bid && o.price == 0);
            flows.push(Flow { step, trader: o.trader, market: is_market, bid: o.bid, vol: o.vol });
            cs.orders += 1;
            if o.bid { cs.buys += 1 } else { cs.sells += 1 }
            if !is_market {
                cs.limit_orders += 1;
            }
            let e = per_trader.entry(o.trader).or_default();
            if is_market { e.0 += 1 } else { e.1 += 1 }
            if e.0 > 1 || e.1 > 1 {
                return bad("more_than_one_order_per_trader", format!("step {}: trader {} submitted {:?} (market, limit) orders in one update", step, o.trader, e));
            }
            // direction: buys when M is positive, sells when M is negative
            if m_new.abs() > 1e-9 && o.bid != (m_new > 0.0) {
                return bad("wrong_side", format!("step {}: M = {} but order {:?}", step, m_new, o));
            }
        }
        let abs_p = p.abs();
        if m_new == 0.0 {
            cs.zero_momentum_updates += 1;
            if !created.is_empty() {
                return bad("orders_at_zero_momentum", format!("step {}: M = 0 but {} orders submitted", step, created.len()));
            }
        } else if abs_p >= 1.001 {
            // saturated demand: the documented rule is deterministic
            cs.saturated_updates += 1;
            if m_new > 0.0 { cs.saturated_buy_updates += 1 } else { cs.saturated_sell_updates += 1 }
            for tr in c.id_start..c.id_start + c.n_agents as u32 {
                let (mk, lm) = per_trader.get(&tr).copied().unwrap_or((0, 0));
                if mk != 1 {
                    return bad(
                        if m_new > 0.0 { "no_buy_at_saturated_positive_momentum" } else { "no_sell_at_saturated_negative_momentum" },
                        format!("step {}: M = {:.4}, |demand*tanh(scale*M)|/n = {:.3} >= 1 but trader {} submitted {} market orders", step, m_new, abs_p, tr, mk),
                    );
                }
                if c.order_ratio * abs_p >= 1.001 && lm != 1 {
                    return bad(
                        if m_new > 0.0 { "no_limit_buy_at_saturated_positive_momentum" } else { "no_limit_sell_at_saturated_negative_momentum" },
                        format!("step {}: M = {:.4}, ratio*|p| = {:.3} >= 1 but trader {} submitted {} limit orders", step, m_new, c.order_ratio * abs_p, tr, lm),
                    );
                }
                if c.order_ratio == 0.0 && lm != 0 {
                    return bad("limit_order_at_ratio_0", format!("step {}: order ratio 0 but trader {} submitted a limit order", step, tr));
                }
            }
        } else if abs_p > 0.02 && abs_p < 0.98 {
            // unsaturated: number of market orders ~ Binomial(n, |p|)
            let mk: u64 = per_trader.values().map(|e| e.0 as u64).sum();
            tallies.push((mk, c.n_agents as u64, (abs_p * 1000.0).round() / 1000.0 * m_new.signum()));
            cs.unsaturated_trials += c.n_agents as u64;
        }
        // limit orders ~ Binomial(n, ratio*|p|) whenever that probability is strictly inside (0,1)
        let pl = c.order_ratio * abs_p;
        if m_new != 0.0 && pl > 0.02 && pl < 0.98 {
            let lm: u64 = per_trader.values().map(|e| e.1 as u64).sum();
            tallies.push((lm, c.n_agents as u64, (pl * 1000.0).round() / 1000.0 * m_new.signum()));
            cs.unsaturated_limit_trials += c.n_agents as u64;
        }
        m = m_new;
        last = Some(mid);
        // process the agent's instructions (market orders hit the huge quotes; the touch cannot move)
        if let Err(pn) = catch(|| env.do_step(&mut shuffle)) {
            return bad("abort_in_step", pn);
        }
    }
    Ok(flows)
}

pub fn random_cfg(rng: &mut Sm, i: usize, saturated: bool) -> MomCfg {
    let market = i % 4 == 3;
    let ticks: Vec<u32> = if market { vec![rng.range(1, 10) as u32, rng.range(1, 10) as u32] } else { vec![rng.range(1, 10) as u32] };
    let n_agents = rng.range(1, 20) as u16;
    let steps = rng.range(4, 30) as usize;
    let base = 2 * rng.range(200, 5000) as i64;
    let kind = rng.below(5);
    // 60% of the paths stay on whole ticks (even half-tick values), 40% also visit half-tick mids
    let whole = rng.chance(0.6);
    let mut path = Vec::with_capacity(steps);
    let mut cur = base;
    for s in 0..steps {
        let d: i64 = match kind {
            0 => rng.range(1, 6) as i64,                  // rising
            1 => -(rng.range(1, 6) as i64),               // falling
            2 => if rng.chance(0.5) { rng.range(1, 8) as i64 } else { -(rng.range(1, 8) as i64) }, // mixed
            3 => 0,                                       // flat
            _ => if (s / 3) % 2 == 0 { rng.range(2, 9) as i64 } else { -(rng.range(1, 3) as i64) }, // trend with small reversals
        };
        // holds: the mid stays exactly where it was while momentum from earlier moves is still fading
        let d = if kind != 3 && rng.chance(0.15) { 0 } else { d };
        let d = if whole { 2 * d } else { d };
        cur = (cur + d).clamp(40, 40_000);
        path.push(cur as u32);
    }
    let demand = if saturated { n_agents as f64 * *rng.pick(&[5.0, 20.0, 200.0]) } else { n_agents as f64 * *rng.pick(&[0.2, 0.5, 0.9]) };
    // the documented probability takes the magnitude of demand*tanh(scale*M), the direction comes from the sign of M
    // alone: a fifth of the configurations carry a negative demand and a fifth a negative scale (independently)
    let demand = if rng.chance(0.2) { -demand } else { demand };
    let scale_sign = if rng.chance(0.2) { -1.0 } else { 1.0 };
    MomCfg {
        market,
        asset: if market { rng.below(2) as usize } else { 0 },
        ticks,
        n_agents,
        id_start: rng.below(500) as u32,
        trade_vol: rng.range(1, 100) as u32,
        decay: *rng.pick(&[0.2, 0.5, 0.9, 1.0, 1.0, 0.0]),
        demand,
        scale: scale_sign * *rng.pick(&[0.5, 2.0, 10.0]),
        order_ratio: *rng.pick(&[0.0, 1.0, 1.0, 3.0, 0.5, 0.25]),
        mu: 1.0,
        sigma: 0.5,
        path,
        agent_seed: rng.next(),
        shuffle_seed: rng.next(),
        halted: rng.chance(0.15),
    }
}

fn mirror(c: &MomCfg) -> MomCfg {
    // mirror the path about a level L on the grid: k -> 2L - k
    let lo = *c.path.iter().min().unwrap();
    let hi = *c.path.iter().max().unwrap();
    let l2 = lo + hi; // 2L in ticks; L = (lo+hi)/2 ticks may be a half tick: use 2L directly (still mirrors exactly)
    let mut m = c.clone();
    m.path = c.path.iter().map(|k| l2 - k).collect();
    m
}

pub fn c17(ctx: &Ctx) -> i32 {
    let n_paths = ctx.tier.pick(200_000, 4_000_000);
    let next = AtomicUsize::new(0);
    let n_viol = AtomicUsize::new(0);
    let merged = Mutex::new((MomCensus::default(), Vec::<(u64, u64, f64)>::new(), Vec::<Violation>::new(), Vec::<u64>::new(), Vec::<serde_json::Value>::new()));
    std::thread::scope(|s| {
        for _ in 0..ctx.threads.max(1) {
            s.spawn(|| {
                crate::util::install_quiet_panic_hook();
                let mut cs = MomCensus::default();
                let mut tl = Vec::new();
                let mut viols = Vec::new();
                let mut keys = Vec::new();
                let mut samples = Vec::new();
                loop {
                    let i = next.fetch_add(1, Ordering::Relaxed);
                    if i >= n_paths || n_viol.load(Ordering::Relaxed) >= 6 {
                        break;
                    }
                    let mut r = Sm::derive(ctx.seed, 0x17_0000 + i as u64);
                    let cfg = random_cfg(&mut r, i, i % 3 != 2);
                    let res = catch(|| run_path(&cfg, &mut cs, &mut tl)).unwrap_or_else(|p| Err(("panic_outside_guard".into(), p)));
                    let mut fail: Option<(String, String, MomCfg)> = None;
                    match res {
                        Err((k, d)) => fail = Some((k, d, cfg.clone())),
                        Ok(flow_a) => {
                            let rises = cfg.path.windows(2).any(|w| w[1] > w[0]);
                            let falls = cfg.path.windows(2).any(|w| w[1] < w[0]);
                            if rises && falls {
                                let mut h = Fnv::new();
                                h.bytes(serde_json::to_string(&cfg.path).unwrap().as_bytes());
                                h.u64(cfg.agent_seed);
                                keys.push(h.finish());
                            }
                            // mirrored run with identical agent and shuffle seeds
                            let mc = mirror(&cfg);
                            let mut dummy = Vec::new();
                            let mut cs2 = MomCensus::default();
                            match catch(|| run_path(&mc, &mut cs2, &mut dummy)).unwrap_or_else(|p| Err(("panic_outside_guard".into(), p))) {
                                Err((k, d)) => fail = Some((k, d, mc)),
                                Ok(flow_b) => {
                                    cs.mirrored_pairs += 1;
                                    cs.mirrored_orders_compared += flow_a.len() as u64;
                                    let ok = flow_a.len() == flow_b.len() && flow_a.iter().zip(flow_b.iter()).all(|(x, y)| x.step == y.step && x.vol == y.vol && x.market == y.market && x.trader == y.trader && x.bid != y.bid);
                                    if !ok {
                                        let first = flow_a.iter().zip(flow_b.iter()).position(|(x, y)| !(x.step == y.step && x.vol == y.vol && x.market == y.market && x.trader == y.trader && x.bid != y.bid));
                                        fail = Some((
                                            "mirrored_path_not_mirrored_flow".into(),
                                            format!("path {:?} gave {} orders, its mirror image {:?} gave {} orders; first mismatch at {:?}: {:?} vs {:?}", cfg.path, flow_a.len(), mc.path, flow_b.len(), first, first.map(|i| &flow_a[i]), first.map(|i| &flow_b[i])),
                                            cfg.clone(),
                                        ));
                                    }
                                    if samples.is_empty() && flow_a.len() > 2 && rises && falls {
                                        samples.push(json!({"cfg": cfg, "order_flow": flow_a.iter().take(12).collect::<Vec<_>>(), "mirrored_flow": flow_b.iter().take(12).collect::<Vec<_>>()}));
                                    }
                                }
                            }
                        }
                    }
                    if let Some((kind, detail, c)) = fail {
                        if kind == "harness" {
                            continue;
                        }
                        n_viol.fetch_add(1, Ordering::Relaxed);
                        viols.push(Violation {
                            signature: format!("C17:momentum:{}", kind),
                            summary: format!("momentum agent ({}): {} — {}", if c.market { "multi-asset" } else { "single-asset" }, kind, crate::bookcheck::truncate(&detail, 600)),
                            replay: json!({"kind": "c17", "cfg": c, "failure": {"kind": kind, "detail": detail}}),
                        });
                    }
                }
                let mut m = merged.lock().unwrap();
                m.0.merge(&cs);
                m.1.extend(tl);
                m.2.extend(viols);
                m.3.extend(keys);
                if m.4.len() < 2 {
                    m.4.extend(samples);
                }
            });
        }
    });
    let (cs, tallies, mut violations, keys, samples) = merged.into_inner().unwrap();
    // unsaturated demand: market orders per update ~ Binomial(n, |p|); pool by rounded p
    // buckets are kept separately for positive and negative momentum (the sign is carried by p)
    let mut pooled: std::collections::BTreeMap<i64, (u64, u64, f64)> = Default::default();
    for (s, t, p) in &tallies {
        let e = pooled.entry((p * 25.0).round() as i64).or_insert((0, 0, 0.0));
        e.0 += s;
        e.1 += t;
        e.2 += p.abs() * *t as f64; // expectation accumulates exactly per trial
    }
    let delta = 1e-9 / pooled.len().max(1) as f64;
    let mut bands = Vec::new();
    for (bucket, (s, t, exp)) in &pooled {
        let pbar = exp / *t as f64;
        let _ = bucket;
        let thr = bernstein_t(*t as f64, pbar.clamp(0.01, 0.99), delta) * 1.05;
        let dev = (*s as f64 - exp).abs();
        bands.push(json!({"momentum_sign": if *bucket < 0 { "negative" } else { "positive" }, "mean_p": (pbar * 1000.0).round() / 1000.0, "trials": t, "market_orders": s, "expected": exp.round(), "deviation_over_threshold": ((dev / thr) * 1000.0).round() / 1000.0}));
        if dev > thr {
            violations.push(Violation {
                signature: "C17:momentum:frequency_outside_band".into(),
                summary: format!("unsaturated demand: {} orders in {} trader-updates, expected {:.0} +- {:.0} (mean p {:.3})", s, t, exp, thr, pbar),
                replay: json!({"kind": "c17_frequency"}),
            });
        }
    }
    let mut d = Distinct::new(4_000_000);
    for k in keys {
        d.add(k);
    }
    let inconclusive = floors(&[
        ("updates", cs.updates, 20_000),
        ("saturated_buy_updates", cs.saturated_buy_updates, 2000),
        ("saturated_sell_updates", cs.saturated_sell_updates, 2000),
        ("zero_momentum_updates", cs.zero_momentum_updates, 1000),
        ("reversal_updates", cs.reversal_updates, 500),
        ("mirrored_pairs", cs.mirrored_pairs, 1000),
        ("multi_asset_paths", cs.multi_asset_paths, 500),
        ("negative_demand_or_scale_paths", cs.negative_demand_or_scale_paths, 200),
        ("halted_crossed_paths", cs.halted_crossed_paths, 500),
        ("hold_updates_with_momentum", cs.hold_updates_with_momentum, 1000),
        ("unsaturated_trials", cs.unsaturated_trials, 20_000),
        ("unsaturated_limit_trials", cs.unsaturated_limit_trials, 10_000),
        ("half_tick_mids", cs.half_tick_mids, 2000),
    ]);
    let cov = json!({
        "evaluations": cs.updates,
        "distinct_nontrivial": d.len(),
        "rule": "cases = momentum-agent update calls along harness-imposed mid-price paths (the harness cancels everything and re-quotes around the path level with huge volume — two-tick spread for mids on the grid, one-tick spread for half-tick mids — in harness-only steps, so the agent's orders never move the touch); rising / falling / mixed / flat / trend-with-reversals paths with occasional holds (mid unchanged while momentum fades); 15% of the paths run in a no-trading period with crossed harness quotes of varying width around the same mid; decay/scale/demand/order-ratio grids (demand and scale of either sign), 1..20 traders, single- and multi-asset; judged: side = sign(M) with M recomputed from the observed mids, exactly one market order (and one limit order if ratio*|p| >= 1) per trader when |demand*tanh(scale*M)|/n >= 1, nothing when M = 0, Binomial band when unsaturated, and mirrored-run comparison (path k vs 2L-k with identical seeds: same steps, traders, kinds and volumes, opposite sides; prices are not compared); distinct = distinct (path, agent seed) pairs; non-trivial = the path both rises and falls",
        "samples": samples,
        "census": cs,
        "unsaturated_bands": bands,
    });
    ctx.finish("exploration", cov, vec!["the agent's documented update rule M = m(1-decay) + decay(P-p), p = |demand*tanh(scale*M)|/n is recomputed in f64 with the same expression order; decisions are only taken away from the thresholds (|p| >= 1.001, M exactly 0)".into()], violations, inconclusive)
}

pub fn replay_c17(doc: &serde_json::Value) -> i32 {
    let cfg: MomCfg = match serde_json::from_value(doc["cfg"].clone()) {
        Ok(c) => c,
        Err(_) => return 2,
    };
    let kind = doc["failure"]["kind"].as_str().unwrap_or("");
    let mut cs = MomCensus::default();
    let mut tl = Vec::new();
    let a = catch(|| run_path(&cfg, &mut cs, &mut tl)).unwrap_or_else(|p| Err(("panic".into(), p)));
    match a {
        Err((k, d)) => {
            println!("REPRODUCED property=C17 {}: {}", k, d);
            1
        }
        Ok(fa) => {
            if kind == "mirrored_path_not_mirrored_flow" {
                let mc = mirror(&cfg);
                if let Ok(Ok(fb)) = catch(|| run_path(&mc, &mut cs, &mut tl)) {
                    let ok = fa.len() == fb.len() && fa.iter().zip(fb.iter()).all(|(x, y)| x.step == y.step && x.vol == y.vol && x.market == y.market && x.trader == y.trader && x.bid != y.bid);
                    if !ok {
                        println!("REPRODUCED property=C17 mirrored flow differs ({} vs {} orders)", fa.len(), fb.len());
                        return 1;
                    }
                }
            }
            println!("NOT-REPRODUCED property=C17");
            0
        }
    }
}
