//! Checks that combine several layers: C05 (book ties + over-full steps), C07 (book forks, market
//! reloads, truncation), C12, C13, C14 (book + market + environment parts) and C15 (shuffle statistics).

use crate::bookcheck::*;
use crate::checks_book::*;
use crate::checks_env::*;
use crate::envlib::*;
use crate::envsession::*;
use crate::gen::{Profile, RndGen};
use crate::marketsession::*;
use crate::model::*;
use crate::ops::*;
use crate::real::RealBook;
use crate::report::{floors, Ctx, Tier, Violation};
use crate::util::{bernstein_t, catch, Distinct, Fnv, Sm};
use crate::{with_levels, with_market};
use bourse_book::{Market, OrderBook};
use rand_xoshiro::rand_core::SeedableRng;
use rand_xoshiro::Xoroshiro128StarStar;
use serde_json::{json, Value};
use std::sync::atomic::{AtomicUsize, Ordering};
use std::sync::Mutex;

// ------------------------------------------------------------------------------------------------
// market sessions driver
// ------------------------------------------------------------------------------------------------

pub struct MarketOutcome {
    pub census: MarketCensus,
    pub distinct: Distinct,
    pub samples: Vec<Value>,
    pub violations: Vec<Violation>,
}

fn market_dyn(cfg: &MarketCfg, cs: &mut MarketCensus, keys: &mut Vec<u64>, sample: &mut Option<Value>, scratch: &str) -> Result<(), MarketFailure> {
    fn go<const A: usize, const L: usize>(cfg: &MarketCfg, cs: &mut MarketCensus, keys: &mut Vec<u64>, sample: &mut Option<Value>, scratch: &str) -> Result<(), MarketFailure> {
        market_session::<A, L>(cfg, cs, keys, sample, scratch)
    }
    with_market!(cfg.type_idx, go(cfg, cs, keys, sample, scratch))
}

pub fn market_guarded(cfg: &MarketCfg, cs: &mut MarketCensus, keys: &mut Vec<u64>, sample: &mut Option<Value>, scratch: &str) -> Result<(), MarketFailure> {
    match catch(|| market_dyn(cfg, cs, keys, sample, scratch)) {
        Ok(r) => r,
        Err(p) => Err(MarketFailure { op_index: usize::MAX, monitor: "abort".into(), kind: "panic_outside_guard".into(), detail: p, last_ops: vec![] }),
    }
}

pub fn run_market_spec(ctx: &Ctx, check: &'static str, flags: u32, types: &[usize], sessions: usize, n_ops: usize) -> MarketOutcome {
    let next = AtomicUsize::new(0);
    let n_viol = AtomicUsize::new(0);
    let merged = Mutex::new(MarketOutcome { census: MarketCensus::default(), distinct: Distinct::new(2_000_000), samples: vec![], violations: vec![] });
    std::thread::scope(|s| {
        for _ in 0..ctx.threads.max(1) {
            s.spawn(|| {
                crate::util::install_quiet_panic_hook();
                let mut cs = MarketCensus::default();
                let mut keys = Vec::new();
                let mut sample = None;
                let mut viols = Vec::new();
                loop {
                    let i = next.fetch_add(1, Ordering::Relaxed);
                    if i >= sessions || n_viol.load(Ordering::Relaxed) >= 4 {
                        break;
                    }
                    let mut r = Sm::derive(ctx.seed, 0x3A000 + i as u64);
                    let cfg = MarketCfg { type_idx: if i % 37 == 36 { WIDE_MARKET_TYPES[(i / 37) % WIDE_MARKET_TYPES.len()] } else { types[i % types.len()] }, flags, sub_seed: r.next(), n_ops: n_ops / 2 + r.below(n_ops as u64) as usize, stop_after: None };
                    if let Err(f) = market_guarded(&cfg, &mut cs, &mut keys, &mut sample, &ctx.scratch) {
                        n_viol.fetch_add(1, Ordering::Relaxed);
                        let mut cfg2 = cfg.clone();
                        if f.op_index != usize::MAX {
                            cfg2.stop_after = Some(f.op_index);
                        }
                        viols.push(Violation {
                            signature: format!("{}:{}:{}", ctx.prop, f.monitor, f.kind),
                            summary: format!("{} / {} at op {} of a market session (type index {}): {}", f.monitor, f.kind, f.op_index, cfg.type_idx, truncate(&f.detail, 700)),
                            replay: json!({"kind": "market_session", "check": check, "session": cfg2, "failure": f}),
                        });
                    }
                }
                let mut m = merged.lock().unwrap();
                m.census.merge(&cs);
                for k in keys {
                    m.distinct.add(k);
                }
                if m.samples.is_empty() {
                    m.samples.extend(sample);
                }
                m.violations.extend(viols);
            });
        }
    });
    merged.into_inner().unwrap()
}

pub fn replay_market(doc: &Value) -> i32 {
    let cfg: MarketCfg = serde_json::from_value(doc["session"].clone()).expect("session cfg");
    let mut cs = MarketCensus::default();
    let scratch = format!("/verif/target/scratch/replay-{}", std::process::id());
    std::fs::create_dir_all(&scratch).ok();
    let r = market_guarded(&cfg, &mut cs, &mut vec![], &mut None, &scratch);
    std::fs::remove_dir_all(&scratch).ok();
    match r {
        Err(f) => {
            println!("REPRODUCED property={} {} / {} at op {}: {}", doc["property"].as_str().unwrap_or("?"), f.monitor, f.kind, f.op_index, f.detail);
            1
        }
        Ok(()) => {
            println!("NOT-REPRODUCED property={}", doc["property"].as_str().unwrap_or("?"));
            0
        }
    }
}

// ------------------------------------------------------------------------------------------------
// C05
// ------------------------------------------------------------------------------------------------

pub fn c05(ctx: &Ctx) -> i32 {
    let spec = c05_book_spec(ctx.tier);
    let out = run_book_spec(ctx, &spec);
    let espec = EnvSpec { check: "c05", flags: E_OVERFULL, env_types: all_types(), sessions: ctx.tier.pick(15_000, 400_000), max_steps: 25, toggle_rate: 0.03, offgrid_rate: 0.0 };
    let eout = run_env_spec(ctx, &espec);
    // thousands of orders queued at one time-stamp, executed by one aggressor in the order in which they were queued
    let (swept, sv) = crate::checks_book::mass_sweeps(ctx, "C05", if ctx.tier == Tier::Quick { &[1200, 4000, 66_000] } else { &[1200, 4000, 66_000, 200_000] }, true, &[]);
    let mut out = out;
    out.violations.extend(sv);
    let c = &out.census;
    let e = &eout.census;
    let mut inconclusive = floors(&[
        ("tied_resting_orders_swept_by_single_aggressors", swept, 60_000),
        ("tie_insertions", c.tie_insertions, 1000),
        ("tied_histories", c.tied_histories, 500),
        ("drains", c.drains, 1000),
        ("overfull_batches", e.overfull_batches, 1000),
        ("env_drains", e.drains, 500),
        ("overlapping_time_stamps", e.tie_like_stamps, 200),
    ]);
    if inconclusive.is_none() {
        inconclusive = crate::checks_env::dropped_sessions_verdict(&eout.inconclusive, eout.census.sessions);
    }
    let mut cov = book_coverage(&spec, &out, "All book monitors (reference equality incl. queue order = FIFO among equal time-stamps, views, ledger, lifecycle, modify rule, reachability of every Active order, reloads) judged from the first tie insertion on. Environment part: sessions whose batches exceed the step size (intra-step time-stamps run into the next step and the clock is moved back by `step`), judged by validated replay on a plain real order book plus invariants (views = recomputation from orders, every Active order queued, complete drain at the end).");
    cov["evaluations"] = json!(out.evaluations + e.steps);
    cov["environment_part"] = json!({"census": e, "sample": eout.samples});
    let mut v = out.violations;
    v.extend(eout.violations);
    ctx.finish("exploration", cov, valid_history_assumptions(), v, inconclusive)
}

// ------------------------------------------------------------------------------------------------
// C07
// ------------------------------------------------------------------------------------------------

fn trunc_one<B: RealBook>(h: &History, pretty: bool, file_route: bool, scratch: &str, progress: &str) -> (u64, Option<(String, String)>) {
    let mut r = Runner::<B>::new(&h.cfg, 0, scratch);
    for op in &h.ops {
        if matches!(op, Op::Drain { .. }) {
            break;
        }
        let _ = r.step(op);
    }
    let text = r.real.to_json(pretty);
    let bytes = text.as_bytes();
    let _ = std::fs::write(progress, format!("truncating a {}-byte snapshot (pretty={}):\n{}", bytes.len(), pretty, text));
    let mut n = 0u64;
    let path = format!("{}/trunc-{:?}.json", scratch, std::thread::current().id());
    for k in 0..bytes.len() {
        n += 1;
        let cut = &text[..k];
        match catch(|| B::from_json(cut).is_ok()) {
            Ok(false) => {}
            Ok(true) => return (n, Some(("truncated_snapshot_loaded".into(), format!("from_str accepted the first {} of {} bytes: ...{:?}", k, bytes.len(), &cut[cut.len().saturating_sub(60)..])))),
            Err(p) => return (n, Some(("truncated_snapshot_panicked".into(), format!("from_str panicked on the first {} of {} bytes: {}", k, bytes.len(), p)))),
        }
        if file_route {
            std::fs::write(&path, &bytes[..k]).unwrap();
            match catch(|| B::load_file(&path).is_ok()) {
                Ok(false) => {}
                Ok(true) => return (n, Some(("truncated_file_loaded".into(), format!("load_json accepted a file cut at byte {} of {}", k, bytes.len())))),
                Err(p) => return (n, Some(("truncated_file_panicked".into(), format!("load_json panicked on a file cut at byte {} of {}: {}", k, bytes.len(), p)))),
            }
        }
    }
    // the complete text must load
    if B::from_json(&text).is_err() {
        return (n, Some(("complete_snapshot_rejected".into(), "the untruncated snapshot does not load".into())));
    }
    let _ = std::fs::remove_file(&path);
    (n, None)
}

fn trunc_market(rng: &mut Sm, pretty: bool, scratch: &str) -> (u64, Option<(String, String)>) {
    let mut m: Market<2, 3> = Market::new(0, [1, 5], true);
    let n = rng.range(5, 40);
    for i in 0..n {
        let a = rng.below(2) as usize;
        let tick = [1u32, 5][a];
        let p = (rng.range(95, 105) as u32) * tick;
        let _ = m.create_and_place_order(a, crate::real::side_of(rng.chance(0.5)), rng.range(1, 50) as u32, 3, Some(p));
        m.set_time(i + 1);
    }
    let text = if pretty { serde_json::to_string_pretty(&m).unwrap() } else { serde_json::to_string(&m).unwrap() };
    let path = format!("{}/trunc-m-{:?}.json", scratch, std::thread::current().id());
    let mut cnt = 0;
    for k in 0..text.len() {
        cnt += 1;
        match catch(|| serde_json::from_str::<Market<2, 3>>(&text[..k]).is_ok()) {
            Ok(false) => {}
            Ok(true) => return (cnt, Some(("truncated_market_snapshot_loaded".into(), format!("first {} of {} bytes accepted", k, text.len())))),
            Err(p) => return (cnt, Some(("truncated_market_snapshot_panicked".into(), p))),
        }
        if k % 7 == 0 {
            std::fs::write(&path, &text.as_bytes()[..k]).unwrap();
            match catch(|| Market::<2, 3>::load_json(&path).is_ok()) {
                Ok(false) => {}
                Ok(true) => return (cnt, Some(("truncated_market_file_loaded".into(), format!("file cut at {} of {} accepted", k, text.len())))),
                Err(p) => return (cnt, Some(("truncated_market_file_panicked".into(), p))),
            }
        }
    }
    let _ = std::fs::remove_file(&path);
    (cnt, None)
}

/// Child-process entry: `bvmon c07-trunc <tier> <seed> <result file>` — so that a hard abort while
/// parsing a truncated snapshot is attributable (the parent reports it as a violation).
pub fn c07_trunc_child(tier: Tier, seed: u64, result_path: &str) -> i32 {
    let ctx_threads = std::thread::available_parallelism().map(|n| n.get()).unwrap_or(4);
    let scratch = format!("{}.scratch", result_path);
    std::fs::create_dir_all(&scratch).ok();
    let n_files = tier.pick(96, 2400);
    let next = AtomicUsize::new(0);
    let res = Mutex::new((0u64, 0u64, 0u64, Vec::<Value>::new(), 0u64));
    std::thread::scope(|s| {
        for _ in 0..ctx_threads {
            s.spawn(|| {
                crate::util::install_quiet_panic_hook();
                loop {
                    let i = next.fetch_add(1, Ordering::Relaxed);
                    if i >= n_files {
                        break;
                    }
                    let mut rng = Sm::derive(seed, 0x7C000 + i as u64);
                    let progress = format!("{}/progress-{}.txt", scratch, i);
                    let (n, bad, bytes) = if i % 8 == 7 {
                        let (n, bad) = trunc_market(&mut rng, i % 16 == 7, &scratch);
                        (n, bad, 0)
                    } else {
                        let mut p = Profile::full();
                        p.ops = (5, if i % 5 == 0 { 120 } else { 40 });
                        p.w_reload = 0;
                        p.drain = false;
                        let mut g = RndGen::new(rng.fork(), p);
                        let h = g.history();
                        fn go<B: RealBook>(h: &History, pretty: bool, file_route: bool, scratch: &str, progress: &str) -> (u64, Option<(String, String)>) {
                            trunc_one::<B>(h, pretty, file_route, scratch, progress)
                        }
                        let pretty = i % 2 == 0;
                        let file_route = i % 4 < 1;
                        let (n, bad) = with_levels!(h.cfg.levels, go(&h, pretty, file_route, &scratch, &progress));
                        (n, bad, n)
                    };
                    let _ = std::fs::remove_file(&progress);
                    let mut r = res.lock().unwrap();
                    r.0 += n;
                    r.1 += 1;
                    r.4 = r.4.max(bytes);
                    if let Some((kind, detail)) = bad {
                        r.2 += 1;
                        r.3.push(json!({"kind": kind, "detail": detail, "file_index": i}));
                    }
                }
            });
        }
    });
    let r = res.into_inner().unwrap();
    let doc = json!({"offsets": r.0, "files": r.1, "bad": r.2, "failures": r.3, "largest_file_bytes": r.4});
    std::fs::write(result_path, serde_json::to_string(&doc).unwrap()).unwrap();
    std::fs::remove_dir_all(&scratch).ok();
    0
}

pub fn c07(ctx: &Ctx) -> i32 {
    // part A: book-level forks through all four routes, driven in lock-step
    let mut p = Profile::full();
    p.ops = (100, 250);
    p.w_fork = 4;
    p.w_reload = 1;
    p.w_create = 12;
    let spec = BookSpec {
        check: "c07",
        mons: M_RELOAD,
        policy: TiePolicy::StopOnTie,
        exh: vec![],
        rnd: vec![(p, ctx.tier.pick(16_000, 150_000))],
        nontrivial: |c| c.forks > 0 && c.fork_comparisons > 1,
        nontrivial_rule: "at least one reloaded copy was created and then driven in lock-step with the original",
    };
    let mut out = run_book_spec(ctx, &spec);
    // part B: markets
    let mout = run_market_spec(ctx, "c07", MK_RELOAD, &[0, 1, 2, 3, 4, 5], ctx.tier.pick(3000, 80_000), 120);
    // part C: truncation in a child process
    let result_path = format!("{}/trunc-result.json", ctx.scratch);
    let exe = std::env::current_exe().unwrap();
    let status = std::process::Command::new(exe).args(["c07-trunc", ctx.tier.name(), &ctx.seed.to_string(), &result_path]).status();
    let mut violations = std::mem::take(&mut out.violations);
    violations.extend(mout.violations);
    let mut trunc = json!({});
    let mut inconclusive = None;
    match status {
        Ok(st) if st.success() => {
            trunc = serde_json::from_str(&std::fs::read_to_string(&result_path).unwrap_or_default()).unwrap_or(json!({}));
            if let Some(fs) = trunc["failures"].as_array() {
                for f in fs {
                    violations.push(Violation {
                        signature: format!("C07:truncation:{}", f["kind"].as_str().unwrap_or("?")),
                        summary: format!("truncation / {}: {}", f["kind"].as_str().unwrap_or("?"), f["detail"].as_str().unwrap_or("")),
                        replay: json!({"kind": "c07_truncation", "tier": ctx.tier.name(), "seed": ctx.seed, "failure": f}),
                    });
                }
            }
        }
        Ok(st) => {
            // the process died while parsing a truncated snapshot
            let scratch = format!("{}.scratch", result_path);
            let mut progress = String::new();
            if let Ok(rd) = std::fs::read_dir(&scratch) {
                for e in rd.flatten() {
                    if e.file_name().to_string_lossy().starts_with("progress-") {
                        progress = std::fs::read_to_string(e.path()).unwrap_or_default();
                        break;
                    }
                }
            }
            std::fs::remove_dir_all(&scratch).ok();
            violations.push(Violation {
                signature: "C07:truncation:process_aborted".into(),
                summary: format!("the process aborted ({}) while loading a truncated snapshot", st),
                replay: json!({"kind": "c07_truncation", "tier": ctx.tier.name(), "seed": ctx.seed, "in_progress": truncate(&progress, 20000)}),
            });
        }
        Err(e) => inconclusive = Some(format!("cannot spawn truncation child: {}", e)),
    }
    let c = &out.census;
    if inconclusive.is_none() {
        inconclusive = floors(&[
            ("forks", c.forks, 1000),
            ("fork_comparisons", c.fork_comparisons, 50_000),
            ("market_reloads", mout.census.reloads, 500),
            ("truncation_offsets", trunc["offsets"].as_u64().unwrap_or(0), 20_000),
        ]);
    }
    let mut cov = book_coverage(&spec, &out, "Part A: at random points a copy is reloaded through to_string / to_string_pretty / save_json(pretty=false|true)+load_json, up to 6 copies stay alive and receive every later operation; full observable snapshots (all views, orders, trades, clock, counter, queue order and trading flag via hooks) are compared after each operation and after the drain probes. Part B: Market<1..4> reloaded through the same routes and continued, compared asset by asset with never-serialised stand-alone books. Part C (fault enumeration): every byte offset 0 <= k < len of written snapshots (book: all level counts, pretty and compact; market) via from_str in memory, and via load_json on a real truncated file for a quarter of the files, must give Err; runs in a child process so that a hard abort is attributable.");
    cov["evaluations"] = json!(out.evaluations + mout.census.sessions + trunc["offsets"].as_u64().unwrap_or(0));
    cov["market_part"] = json!({"census": mout.census, "distinct_sessions": mout.distinct.len(), "sample": mout.samples});
    cov["truncation_part"] = trunc;
    ctx.finish("fault_enumeration", cov, valid_history_assumptions(), violations, inconclusive)
}

// ------------------------------------------------------------------------------------------------
// C12, C13, C14
// ------------------------------------------------------------------------------------------------

pub fn c12(ctx: &Ctx) -> i32 {
    let spec = c12_book_spec(ctx.tier);
    let mut out = run_book_spec(ctx, &spec);
    let mout = run_market_spec(ctx, "c12", MK_GRID, &[0, 1, 2, 3, 4, 5], ctx.tier.pick(8000, 160_000), 120);
    let espec = EnvSpec { check: "c12", flags: E_GRID, env_types: all_types(), sessions: ctx.tier.pick(9000, 200_000), max_steps: 15, toggle_rate: 0.03, offgrid_rate: 0.15 };
    let eout = run_env_spec(ctx, &espec);
    // accept/reject clause for arbitrary u32 prices and large ticks (no level getters consulted)
    let mut rng = Sm::derive(ctx.seed, 0xC12);
    let mut pure = 0u64;
    let mut violations = std::mem::take(&mut out.violations);
    violations.extend(mout.violations);
    violations.extend(eout.violations);
    for _ in 0..ctx.tier.pick(200_000, 5_000_000) {
        let tick = match rng.below(4) {
            0 => rng.range(1, 10) as u32,
            1 => rng.range(11, 100_000) as u32,
            2 => (rng.next() as u32).max(1),
            _ => 1u32 << rng.below(32),
        };
        let price = match rng.below(6) {
            0 => rng.next() as u32,
            1 => (rng.next() as u32 / tick).wrapping_mul(tick),
            2 => 0,
            3 => u32::MAX,
            4 => tick.wrapping_add(rng.below(3) as u32).wrapping_sub(1),
            _ => u32::MAX - rng.below(3) as u32,
        };
        let bid = rng.chance(0.5);
        let on_grid = price % tick == 0;
        pure += 1;
        // Ok(None) = as specified; Ok(Some(text)) = wrong answer; Err = the request aborted
        let outcome = catch(|| {
            let mut b: OrderBook<1> = OrderBook::new(0, tick, true);
            let r = b.create_order(crate::real::side_of(bid), 1, 0, Some(price));
            if r.is_ok() != on_grid || (r.is_err() && !b.get_orders().is_empty()) || b.create_order(crate::real::side_of(bid), 1, 0, None).ok() != Some(if on_grid { 1 } else { 0 }) {
                Some(format!("{:?}", r.map_err(|e| e.to_string())))
            } else if on_grid && b.get_orders()[0].price != price {
                // an accepted creation stores the price that was asked for (and checked), not another one
                Some(format!("Ok, but the order carries price {}", b.get_orders()[0].price))
            } else {
                None
            }
        });
        let bad = match outcome {
            Ok(None) => None,
            Ok(Some(t)) => Some(("accept_iff_on_grid", t)),
            Err(p) => Some(("creation_aborted", format!("panic: {}", p))),
        };
        if let Some((kind, text)) = bad {
            violations.push(Violation {
                signature: format!("C12:grid:{}", kind),
                summary: format!("create_order(price {}, tick {}) -> {}; expected {}", price, tick, text, if on_grid { "Ok" } else { "Err" }),
                replay: json!({"kind": "c12_pure", "tick": tick, "price": price, "bid": bid}),
            });
            break;
        }
    }
    let c = &out.census;
    let inconclusive = floors(&[
        ("rejected_creations", c.rejected_creations, 1000),
        ("offgrid_modifies", c.offgrid_modifies, 1000),
        ("market_rejected_creations", mout.census.rejected_creations, 200),
        ("env_rejected_submissions", eout.census.rejected_submissions, 200),
    ]);
    let mut cov = book_coverage(&spec, &out, "Judged: creation Ok <=> price % tick == 0 (market orders always Ok); full-snapshot equality around every rejected creation and the next accepted creation getting id = old length; after every operation every limit order's price is a multiple of the tick; the published levels account for all resting volume inside their range. What an off-grid modify does (ignore / error / snap) is deliberately not demanded. The same through Market<1..4> (market part), Env and MarketEnv submissions (environment part), plus a pure accept/reject sweep over arbitrary u32 prices and ticks.");
    cov["evaluations"] = json!(out.evaluations + mout.census.sessions + eout.census.sessions + pure);
    cov["pure_accept_reject_cases"] = json!(pure);
    cov["market_part"] = json!({"census": mout.census});
    cov["environment_part"] = json!({"census": eout.census, "sessions_dropped_as_inconclusive": eout.inconclusive.len()});
    ctx.finish("exploration", cov, valid_history_assumptions(), violations, inconclusive)
}

pub fn c13(ctx: &Ctx) -> i32 {
    let spec = c13_book_spec(ctx.tier);
    let mut out = run_book_spec(ctx, &spec);
    let mout = run_market_spec(ctx, "c13", MK_FLAG, &[0, 1, 2, 3, 4, 5], ctx.tier.pick(12_000, 240_000), 150);
    let espec = EnvSpec { check: "c13", flags: E_FLAG | E_STEP, env_types: all_types(), sessions: ctx.tier.pick(12_000, 300_000), max_steps: 25, toggle_rate: 0.25, offgrid_rate: 0.0 };
    let mut eout = run_env_spec(ctx, &espec);
    // the same judgements on steps that carry more instructions than the step has time units
    let ospec = EnvSpec { check: "c13", flags: E_FLAG | E_OVERFULL, env_types: all_types(), sessions: ctx.tier.pick(4000, 80_000), max_steps: 20, toggle_rate: 0.25, offgrid_rate: 0.0 };
    let oout = run_env_spec(ctx, &ospec);
    let overfull_disabled_steps = oout.census.steps_while_disabled;
    eout.violations.extend(oout.violations);
    eout.inconclusive.extend(oout.inconclusive);
    eout.census.merge(&oout.census);
    let c = &out.census;
    let mut violations = std::mem::take(&mut out.violations);
    violations.extend(mout.violations);
    violations.extend(eout.violations);
    let mut inconclusive = floors(&[
        ("overfull_steps_while_disabled", overfull_disabled_steps, 200),
        ("ops_while_disabled", c.ops_while_disabled, 1000),
        ("market_rejected", c.market_rejected, 100),
        ("trades_after_reenable", c.trades_after_reenable, 100),
        ("toggles", c.toggles, 100),
        ("market_toggles", mout.census.toggles, 200),
        ("env_toggles", eout.census.toggles, 200),
        ("env_steps_while_disabled", eout.census.steps_while_disabled, 500),
        ("env_trades_after_reenable", eout.census.trades_after_reenable, 200),
    ]);
    if inconclusive.is_none() {
        inconclusive = crate::checks_env::dropped_sessions_verdict(&eout.inconclusive, eout.census.sessions);
    }
    let mut cov = book_coverage(&spec, &out, "Judged: the trade log never grows while the flag is off; market orders placed while off are Rejected with end time = now and touch nothing; limit orders and re-priced orders rest (book may cross); a toggle changes no observable; after re-enabling, arrivals and re-prices match by the usual rules (reference-engine equality of records, trades and queue order on disciplined histories with toggles at arbitrary points). Market part: fan-out of the flag to every asset. Environment part: toggles between steps, no trades / rejected market orders in disabled steps, equivalence with a plain book after re-enabling (validated replay).");
    cov["evaluations"] = json!(out.evaluations + mout.census.sessions + eout.census.steps);
    cov["market_part"] = json!({"census": mout.census});
    cov["environment_part"] = json!({"census": eout.census, "sessions_dropped_as_inconclusive": eout.inconclusive.len()});
    ctx.finish("exploration", cov, valid_history_assumptions(), violations, inconclusive)
}

pub fn c14(ctx: &Ctx) -> i32 {
    let mout = run_market_spec(ctx, "c14", MK_ASSET, &[0, 1, 2, 3, 4, 5], ctx.tier.pick(20_000, 400_000), 200);
    let espec = EnvSpec { check: "c14", flags: E_ASSET | E_STEP | E_REC, env_types: multi_types(), sessions: ctx.tier.pick(10_000, 250_000), max_steps: 25, toggle_rate: 0.05, offgrid_rate: 0.0 };
    let mut eout = run_env_spec(ctx, &espec);
    // crowded multi-asset steps (more instructions than the step has time units): the shared clock still hands every
    // processed instruction its own time-stamp, whichever asset it belongs to
    let ospec = EnvSpec { check: "c14", flags: E_ASSET | E_OVERFULL, env_types: multi_types(), sessions: ctx.tier.pick(4000, 80_000), max_steps: 20, toggle_rate: 0.03, offgrid_rate: 0.0 };
    let oout = run_env_spec(ctx, &ospec);
    let overfull_steps = oout.census.steps;
    let overfull_batches = oout.census.overfull_batches;
    eout.violations.extend(oout.violations);
    eout.inconclusive.extend(oout.inconclusive);
    eout.distinct.merge(oout.distinct);
    // huge multi-asset batches: thousands of instructions across the assets in one step, each at its own time-stamp
    let mut huge_done = 0u64;
    for (k, n) in [4100usize, 9000, 66_000].iter().enumerate().take(ctx.tier.pick(2, 3)) {
        let seed = Sm::derive(ctx.seed, 0x4855_14 + k as u64).next();
        let r = if k % 2 == 0 { crate::extra::huge_step::<bourse_de::MarketEnv<2, 10>>(seed, *n) } else { crate::extra::huge_step::<bourse_de::MarketEnv<4, 3>>(seed, *n) };
        match r {
            Ok(_) => huge_done += *n as u64,
            Err((kind, detail)) => {
                if kind == "harness" {
                    eout.inconclusive.push(format!("huge batch: {}", detail));
                } else {
                    eout.violations.push(Violation { signature: format!("C14:step:{}", kind), summary: format!("step / {} in a huge multi-asset batch: {}", kind, detail), replay: json!({"kind": "huge_step", "property": "C14", "seed": seed, "n": n, "env": 1}) });
                }
            }
        }
    }
    let m = &mout.census;
    let mut violations = mout.violations;
    violations.extend(eout.violations);
    let mut inconclusive = floors(&[
        ("instructions_in_huge_batches", huge_done, 10_000),
        ("env_overfull_batches", overfull_batches, 1000),
        ("market_ops", m.ops, 100_000),
        ("market_trades", m.trades, 5000),
        ("shared_local_ids_with_different_contents", m.shared_local_ids_with_different_contents, 10_000),
        ("sessions_where_2_assets_share_ids_and_trade", m.sessions_where_2_assets_share_ids_and_trade, 500),
        ("all_asset_queries_checked", m.all_asset_queries_checked, 10_000),
        ("env_steps", eout.census.steps, 5000),
        ("env_multi_asset_sessions", eout.census.multi_asset_sessions, 500),
    ]);
    if inconclusive.is_none() {
        inconclusive = crate::checks_env::dropped_sessions_verdict(&eout.inconclusive, eout.census.sessions);
    }
    let mut d = mout.distinct;
    d.merge(eout.distinct);
    let mut samples = mout.samples;
    samples.extend(eout.samples);
    let cov = json!({
        "evaluations": m.sessions + eout.census.steps,
        "distinct_nontrivial": d.len(),
        "rule": "cases = market sessions (Market<1|2|3|4 assets> with distinct per-asset ticks; create / create_and_place / place / cancel / modify / process_event / get_order_book_mut / set_time / toggles / reset / snapshot reload, assets interleaved at random) and MarketEnv steps (shuffled batches across assets); after every operation each asset's complete observable snapshot is compared with a stand-alone single-asset book fed that asset's operations at the same times, all per-asset and all-asset queries are compared in asset order, and returned ids must be (asset, per-asset sequence number); distinct = distinct operation logs / (batch shape, schedule) pairs; non-trivial = at least two assets hold the same local ids with different contents and both traded (market part), batches with >= 2 instructions (environment part; a second family of sessions carries more instructions per step than the step size)",
        "samples": samples,
        "market_part": {"census": m},
        "environment_part": {"census": eout.census, "sessions_dropped_as_inconclusive": eout.inconclusive.len(), "overfull_sessions": {"steps": overfull_steps, "overfull_batches": overfull_batches}},
    });
    ctx.finish("exploration", cov, env_assumptions(), violations, inconclusive)
}

// ------------------------------------------------------------------------------------------------
// C15: shuffle statistics
// ------------------------------------------------------------------------------------------------

struct ShuffleTables {
    /// perm[n][lehmer index] for n = 2..=6
    perm: Vec<Vec<u64>>,
    perm_n: Vec<u64>,
    /// pos[n][item * n + position]
    pos: std::collections::BTreeMap<usize, (u64, Vec<u64>)>,
    /// pair[n][i * n + j] (i < j): number of steps in which item i was processed before item j
    pair: std::collections::BTreeMap<usize, (u64, Vec<u64>)>,
    steps: u64,
    mixed_steps: u64,
    multi_asset_steps: u64,
    trading_off_steps: u64,
    twin_steps: u64,
    twin_modify_steps: u64,
    distinct: Vec<u64>,
    content_checks: u64,
    replay_checks: u64,
    kind_pairs: u64,
    cancel_first: u64,
    /// same-step (new x, cancel x) and (new x, modify x) pairs: [cancel, modify]
    dep_pairs: [u64; 2],
    dep_effective: [u64; 2],
}

impl ShuffleTables {
    fn new() -> Self {
        ShuffleTables {
            perm: (0..=6).map(|n| vec![0u64; (1..=n.max(1)).product::<usize>()]).collect(),
            perm_n: vec![0; 7],
            pos: Default::default(),
            pair: Default::default(),
            steps: 0,
            mixed_steps: 0,
            multi_asset_steps: 0,
            trading_off_steps: 0,
            twin_steps: 0,
            twin_modify_steps: 0,
            distinct: Vec::new(),
            content_checks: 0,
            replay_checks: 0,
            kind_pairs: 0,
            cancel_first: 0,
            dep_pairs: [0; 2],
            dep_effective: [0; 2],
        }
    }
    fn record(&mut self, posmap: &[usize]) {
        let n = posmap.len();
        self.steps += 1;
        if n <= 6 {
            // Lehmer code of the position map
            let mut idx = 0usize;
            for i in 0..n {
                let smaller = (i + 1..n).filter(|j| posmap[*j] < posmap[i]).count();
                idx = idx * (n - i) + smaller;
            }
            self.perm[n][idx] += 1;
            self.perm_n[n] += 1;
        }
        let e = self.pos.entry(n).or_insert_with(|| (0, vec![0; n * n]));
        e.0 += 1;
        for (item, p) in posmap.iter().enumerate() {
            e.1[item * n + *p] += 1;
        }
        let e = self.pair.entry(n).or_insert_with(|| (0, vec![0; n * n]));
        e.0 += 1;
        for i in 0..n {
            for j in (i + 1)..n {
                if posmap[i] < posmap[j] {
                    e.1[i * n + j] += 1;
                }
            }
        }
        let mut h = Fnv::new();
        for p in posmap {
            h.u32(*p as u32);
        }
        self.distinct.push(h.finish());
    }
    fn merge(&mut self, o: ShuffleTables) {
        for n in 0..=6 {
            for (a, b) in self.perm[n].iter_mut().zip(o.perm[n].iter()) {
                *a += b;
            }
            self.perm_n[n] += o.perm_n[n];
        }
        for (n, (cnt, v)) in o.pos {
            let e = self.pos.entry(n).or_insert_with(|| (0, vec![0; n * n]));
            e.0 += cnt;
            for (a, b) in e.1.iter_mut().zip(v.iter()) {
                *a += b;
            }
        }
        for (n, (cnt, v)) in o.pair {
            let e = self.pair.entry(n).or_insert_with(|| (0, vec![0; n * n]));
            e.0 += cnt;
            for (a, b) in e.1.iter_mut().zip(v.iter()) {
                *a += b;
            }
        }
        self.steps += o.steps;
        self.mixed_steps += o.mixed_steps;
        self.multi_asset_steps += o.multi_asset_steps;
        self.trading_off_steps += o.trading_off_steps;
        self.twin_steps += o.twin_steps;
        self.twin_modify_steps += o.twin_modify_steps;
        self.distinct.extend(o.distinct);
        self.content_checks += o.content_checks;
        self.replay_checks += o.replay_checks;
        self.kind_pairs += o.kind_pairs;
        self.cancel_first += o.cancel_first;
        for k in 0..2 {
            self.dep_pairs[k] += o.dep_pairs[k];
            self.dep_effective[k] += o.dep_effective[k];
        }
    }
}

/// One seeded step with `n` instructions whose processed positions are all visible. Returns the
/// position map (item k was processed at position p) or an error description.
fn shuffle_step<E: SimEnv>(env: &mut E, xr: &mut Xoroshiro128StarStar, rng: &mut Sm, n: usize, mixed: bool, content_variant: u64, ticks: &[u32]) -> Result<(Vec<usize>, Option<bool>), String> {
    let assets = E::ASSETS;
    let start = env.time();
    let mut items: Vec<(usize, usize, bool)> = Vec::new(); // (asset, id, is_cancel)
    let mut used_mixed = false;
    // candidates for cancellation: active limit orders
    let mut cancel_pool: Vec<(usize, usize)> = Vec::new();
    if mixed {
        for a in 0..assets {
            for o in env.env_orders(a) {
                if o.status == ACTIVE {
                    cancel_pool.push((a, o.id));
                }
            }
        }
    }
    let mut crng = Sm::derive(content_variant, 0xC0);
    for _ in 0..n {
        if mixed && !cancel_pool.is_empty() && rng.chance(0.35) {
            let k = rng.below(cancel_pool.len() as u64) as usize;
            let (a, id) = cancel_pool.swap_remove(k);
            env.cancel(a, id);
            items.push((a, id, true));
            used_mixed = true;
        } else {
            // contents (asset, side, price, volume) come from the content stream, so two runs with the
            // same shuffle generator state can carry different contents
            let a = crng.below(assets as u64) as usize;
            let bid = crng.chance(0.5);
            let k = if bid { crng.range(10, 40) } else { crng.range(60, 90) };
            let price = (k * ticks[a] as u64) as u32;
            let (ra, id) = env.place(a, bid, crng.range(1, 20) as u32, 1, Some(price))?;
            items.push((ra, id, false));
        }
    }
    env.do_step(xr);
    // processed position = rank of the instruction's time-stamp within the batch (C15 does not
    // demand particular time-stamp values — that is C08's business — only an observable order)
    let mut times: Vec<u64> = Vec::with_capacity(n);
    for (k, (a, id, is_cancel)) in items.iter().enumerate() {
        let o = env.book(*a).order(*id);
        if *is_cancel && o.status != CANCELLED {
            return Err(format!("unobservable: cancel of active order ({}, {}) left no time-stamp: {:?}", a, id, o));
        }
        if !*is_cancel && o.status == NEW {
            return Err(format!("unobservable: new order ({}, {}) (instruction {}) was not placed by the step", a, id, k));
        }
        times.push(if *is_cancel { o.end } else { o.arr });
    }
    let mut sorted = times.clone();
    sorted.sort();
    if sorted.windows(2).any(|w| w[0] == w[1]) {
        return Err(format!("unobservable: two instructions carry the same time-stamp {:?} (start {})", times, start));
    }
    let pos: Vec<usize> = times.iter().map(|t| sorted.binary_search(t).unwrap()).collect();
    // one (cancel, new) pair per step: was the cancellation processed before the new order?
    let first_cancel = items.iter().position(|i| i.2);
    let first_new = items.iter().position(|i| !i.2);
    let kind_pair = match (used_mixed, first_cancel, first_new) {
        (true, Some(c), Some(nw)) => Some(pos[c] < pos[nw]),
        _ => None,
    };
    Ok((pos, kind_pair))
}

/// A step that contains a new order AND a cancellation (or re-pricing modify) of that same order,
/// next to `n - 2` unrelated new orders. Under an unbiased, content-independent shuffle the dependent
/// instruction is processed after its order's placement with probability 1/2, which is visible in the
/// order's final state. Returns Some(true) iff the dependent instruction took effect.
fn pair_step<E: SimEnv>(env: &mut E, xr: &mut Xoroshiro128StarStar, rng: &mut Sm, n: usize, use_modify: bool, ticks: &[u32]) -> Result<bool, String> {
    let assets = E::ASSETS;
    let a = rng.below(assets as u64) as usize;
    let slot = rng.below(n as u64 - 1) as usize; // submission index of the pair's New
    let mut target: Option<usize> = None;
    let mut dep_submitted = false;
    let dep_at = rng.range(slot as u64 + 1, n as u64 - 1) as usize; // the dependent instruction is submitted later
    let mut k = 0;
    while k < n {
        if k == slot {
            let (_, id) = env.place(a, true, 7, 1, Some(20 * ticks[a]))?;
            target = Some(id);
        } else if k == dep_at {
            let id = target.unwrap();
            if use_modify {
                env.modify(a, id, Some(10 * ticks[a]), None);
            } else {
                env.cancel(a, id);
            }
            dep_submitted = true;
        } else {
            let b = rng.below(assets as u64) as usize;
            let bid = rng.chance(0.5);
            let kk = if bid { rng.range(30, 40) } else { rng.range(60, 90) };
            env.place(b, bid, rng.range(1, 20) as u32, 1, Some((kk * ticks[b] as u64) as u32))?;
        }
        k += 1;
    }
    if !dep_submitted {
        return Err("unobservable: pair not submitted".into());
    }
    env.do_step(xr);
    let o = env.book(a).order(target.unwrap());
    if o.status == NEW {
        return Err(format!("unobservable: new order ({}, {}) was not placed by the step", a, target.unwrap()));
    }
    let took_effect = if use_modify { o.price == 10 * ticks[a] } else { o.status == CANCELLED };
    // clean up so that the book does not grow without bound
    env.cancel(a, target.unwrap());
    Ok(took_effect)
}

/// A step whose batch re-prices several resting orders of one side to the *same* price next to a few new orders: the
/// queue order at that price (and the key stamps in the snapshot text) then reveal the relative processing order of
/// the modifications, which no time-stamp of the order records shows. Used on twin environments only.
fn modify_step<E: SimEnv>(env: &mut E, xr: &mut Xoroshiro128StarStar, rng: &mut Sm, n: usize, ticks: &[u32]) -> Result<usize, String> {
    let a = rng.below(E::ASSETS as u64) as usize;
    let bid = rng.chance(0.5);
    let mut pool: Vec<usize> = env.env_orders(a).iter().filter(|o| o.status == ACTIVE && o.bid == bid).map(|o| o.id).collect();
    let target = ((if bid { rng.range(10, 40) } else { rng.range(60, 90) }) * ticks[a] as u64) as u32;
    let k = pool.len().min(n.max(2) - 1).min(4);
    let mut mods = 0;
    for j in 0..n {
        if j < k {
            let i = rng.below(pool.len() as u64) as usize;
            let id = pool.swap_remove(i);
            env.modify(a, id, Some(target), None);
            mods += 1;
        } else {
            let b = rng.below(E::ASSETS as u64) as usize;
            let bd = rng.chance(0.5);
            let kk = if bd { rng.range(10, 40) } else { rng.range(60, 90) };
            env.place(b, bd, rng.range(1, 20) as u32, 1, Some((kk * ticks[b] as u64) as u32))?;
        }
    }
    env.do_step(xr);
    Ok(mods)
}

fn shuffle_worker<E: SimEnv>(seed: u64, work: &[(usize, u64)], t: &mut ShuffleTables, fails: &mut Vec<(String, String)>) {
    let assets = E::ASSETS;
    for (wi, (n, steps)) in work.iter().enumerate() {
        let mut rng = Sm::derive(seed, 0x15_0000 + wi as u64);
        let mut done = 0u64;
        while done < *steps {
            let ticks: Vec<u32> = (0..assets).map(|_| rng.range(1, 10) as u32).collect();
            let step_size = (*n as u64).max(1) + rng.range(0, 50);
            // a third of the environments run (part of) their steps with trading disabled: the schedule must not
            // depend on the trading flag either (the quotes used here never cross, so positions stay observable)
            let tmode = rng.below(6);
            let mut trading = tmode != 0;
            let t0 = rng.below(1000);
            let mut env = E::create(t0, &ticks, step_size, trading);
            // a fifth of the environments have a twin that receives the same submissions and, at every step, a clone of
            // the generator: same generator state + same batch must give the same schedule, whatever the instructions
            // are (the twins' complete snapshot texts, incl. queue stamps, are compared after every step)
            let mut twin: Option<E> = if rng.chance(0.2) { Some(E::create(t0, &ticks, step_size, trading)) } else { None };
            if tmode == 1 {
                env.set_trading(false);
                if let Some(tw) = twin.as_mut() {
                    tw.set_trading(false);
                }
                trading = false;
            }
            let xseed = rng.next();
            let mut xr = Xoroshiro128StarStar::seed_from_u64(xseed);
            let per_env = 12.min(*steps - done);
            for s in 0..per_env {
                let mixed = s > 0 && s % 3 == 2;
                if tmode <= 2 && s > 0 && rng.chance(0.15) {
                    trading = !trading;
                    env.set_trading(trading);
                    if let Some(tw) = twin.as_mut() {
                        tw.set_trading(trading);
                    }
                }
                if !trading {
                    t.trading_off_steps += 1;
                }
                let xr_before = xr.clone();
                let content = rng.next();
                let rng_before = rng.clone();
                let step_result = shuffle_step(&mut env, &mut xr, &mut rng, *n, mixed, content, &ticks);
                let xr_after = xr.clone(); // the generator right after the recorded step (the twin part below steps again)
                if let Some(tw) = twin.as_mut() {
                    let (mut xr_t, mut rng_t) = (xr_before.clone(), rng_before.clone());
                    let _ = shuffle_step(tw, &mut xr_t, &mut rng_t, *n, mixed, content, &ticks);
                    t.twin_steps += 1;
                    // then a step that re-prices several resting orders to one price, on both
                    let (xr_m, rng_m) = (xr.clone(), rng.clone());
                    let (mut xr_t, mut rng_t) = (xr_m.clone(), rng_m.clone());
                    let ma = modify_step(&mut env, &mut xr, &mut rng, (*n).min(12), &ticks);
                    let mb = modify_step(tw, &mut xr_t, &mut rng_t, (*n).min(12), &ticks);
                    if let (Ok(k), Ok(_)) = (&ma, &mb) {
                        if *k >= 2 {
                            t.twin_modify_steps += 1;
                        }
                    }
                    for a in 0..assets {
                        // complete observable snapshots (records, views, queue order through hook H2), not snapshot text
                        if env.book(a).obs() != tw.book(a).obs() {
                            fails.push(("same_state_different_permutation".into(), format!("n={} two environments with the same history, the same batch and clones of one generator ended a step in different states (asset {}): orders {:?} vs {:?}, queues {:?} vs {:?}", n, a, env.env_orders(a).iter().rev().take(6).collect::<Vec<_>>(), tw.env_orders(a).iter().rev().take(6).collect::<Vec<_>>(), env.book(a).queue(), tw.book(a).queue())));
                            twin = None;
                            break;
                        }
                    }
                }
                match step_result {
                    Ok((pos, kind_pair)) => {
                        t.record(&pos);
                        if let Some(cf) = kind_pair {
                            t.mixed_steps += 1;
                            t.kind_pairs += 1;
                            if cf {
                                t.cancel_first += 1;
                            }
                        }
                        if assets > 1 {
                            t.multi_asset_steps += 1;
                        }
                        // exact checks on a sample of steps: same generator state + same batch size
                        // => same position map, whatever the contents; and the same state afterwards
                        if (done + s) % 7 == 0 {
                            // the live environment is at step `s` with a populated book and possibly
                            // mixed instruction kinds; the twin is fresh, empty and gets new orders only
                            let mut env2 = E::create(7, &ticks, step_size, true);
                            let mut xr2 = xr_before.clone();
                            let mut rng2 = Sm::derive(content ^ 0x77, 1);
                            match shuffle_step(&mut env2, &mut xr2, &mut rng2, *n, false, content ^ 0xFFFF, &ticks) {
                                Ok((pos2, _)) => {
                                    t.content_checks += 1;
                                    if pos2 != pos {
                                        fails.push(("schedule_depends_on_contents".into(), format!("n={} same generator state, different instruction contents: positions {:?} vs {:?}", n, pos, pos2)));
                                    }
                                    use rand::RngCore;
                                    let (mut a, mut b) = (xr_after.clone(), xr2.clone());
                                    if a.next_u64() != b.next_u64() {
                                        fails.push(("generator_state_depends_on_contents".into(), format!("n={}", n)));
                                    }
                                }
                                Err(e) => fails.push(("unobservable".into(), e)),
                            }
                            // replay: identical state and contents => identical permutation
                            let mut env3 = E::create(7, &ticks, step_size, true);
                            let mut xr3 = xr_before.clone();
                            let mut rng3 = Sm::derive(content ^ 0x77, 1);
                            if let Ok((pos3, _)) = shuffle_step(&mut env3, &mut xr3, &mut rng3, *n, false, content, &ticks) {
                                t.replay_checks += 1;
                                if pos3 != pos {
                                    fails.push(("same_state_different_permutation".into(), format!("n={} {:?} vs {:?}", n, pos, pos3)));
                                }
                            }
                        }
                    }
                    Err(e) => {
                        fails.push(("unobservable".into(), e));
                        return;
                    }
                }
                done += 1;
            }
            // same-step dependent pairs (only for small and medium batches; one pair per step)
            if *n >= 2 && *n <= 16 {
                for q in 0..4 {
                    if let Some(tw) = twin.as_mut() {
                        let (mut xr_t, mut rng_t) = (xr.clone(), rng.clone());
                        let _ = pair_step(tw, &mut xr_t, &mut rng_t, *n, q % 2 == 1, &ticks);
                    }
                    match pair_step(&mut env, &mut xr, &mut rng, *n, q % 2 == 1, &ticks) {
                        Ok(effect) => {
                            let slot = if q % 2 == 1 { 1 } else { 0 };
                            t.dep_pairs[slot] += 1;
                            if effect {
                                t.dep_effective[slot] += 1;
                            }
                        }
                        Err(e) => {
                            fails.push(("unobservable".into(), e));
                            return;
                        }
                    }
                }
            }
            if fails.len() > 3 {
                return;
            }
        }
    }
}

pub fn c15(ctx: &Ctx) -> i32 {
    let scale = ctx.tier.pick(3u64, 20u64);
    // (n, steps) work list; split into chunks for the worker threads
    let mut plan: Vec<(usize, u64)> = vec![(2, 200_000), (3, 200_000), (4, 200_000), (5, 200_000), (6, 2_000_000), (7, 100_000), (8, 100_000)];
    for n in 9..=24usize {
        plan.push((n, if n == 16 { 100_000 } else { 50_000 }));
    }
    plan.extend([(32, 100_000), (48, 50_000), (64, 100_000)]);
    let mut chunks: Vec<(usize, usize, u64)> = Vec::new(); // (env kind, n, steps)
    for (n, steps) in &plan {
        let total = steps * scale;
        let per = 12_500u64;
        let mut left = total;
        let mut i = 0;
        while left > 0 {
            let c = left.min(per);
            // a quarter of the chunks run in the multi-asset environment
            chunks.push((if i % 4 == 3 { 1 } else { 0 }, *n, c));
            left -= c;
            i += 1;
        }
    }
    let next = AtomicUsize::new(0);
    let merged = Mutex::new(([ShuffleTables::new(), ShuffleTables::new()], Vec::<(String, String)>::new()));
    std::thread::scope(|s| {
        for _ in 0..ctx.threads.max(1) {
            s.spawn(|| {
                crate::util::install_quiet_panic_hook();
                let mut ts = [ShuffleTables::new(), ShuffleTables::new()];
                let mut fails = Vec::new();
                loop {
                    let i = next.fetch_add(1, Ordering::Relaxed);
                    if i >= chunks.len() || fails.len() > 3 {
                        break;
                    }
                    let (kind, n, steps) = chunks[i];
                    let seed = Sm::derive(ctx.seed, 0xF15 + i as u64).next();
                    let t = &mut ts[kind];
                    let r = catch(|| {
                        if kind == 0 {
                            shuffle_worker::<bourse_de::Env<10>>(seed, &[(n, steps)], t, &mut fails)
                        } else {
                            shuffle_worker::<bourse_de::MarketEnv<2, 10>>(seed, &[(n, steps)], t, &mut fails)
                        }
                    });
                    if let Err(p) = r {
                        fails.push(("panic_in_step".into(), p));
                    }
                }
                let mut m = merged.lock().unwrap();
                let [t0, t1] = ts;
                m.0[0].merge(t0);
                m.0[1].merge(t1);
                m.1.extend(fails);
            });
        }
    });
    let (ts, mut fails) = merged.into_inner().unwrap();
    // huge batches: submission blocks against position blocks (8 x 8), every instruction must have a position
    let mut huge_tables: Vec<(usize, [[u64; 8]; 8], Vec<[u64; 8]>)> = Vec::new();
    for (k, n) in [66_000usize, 70_001, 131_073].iter().enumerate().take(ctx.tier.pick(2, 3)) {
        let seed = Sm::derive(ctx.seed, 0x4855_15 + k as u64).next();
        let r = if k % 2 == 0 { crate::extra::huge_step::<bourse_de::Env<10>>(seed, *n) } else { crate::extra::huge_step::<bourse_de::MarketEnv<2, 10>>(seed, *n) };
        match r {
            Ok(o) => huge_tables.push((o.n, o.table, o.asset_table)),
            Err((kind, detail)) => {
                if kind == "harness" || kind == "panic_in_step" {
                    fails.push(("unobservable".into(), format!("huge batch: {} {}", kind, detail)));
                } else {
                    // an instruction without a position (or two at one position) is not a permutation of the batch
                    fails.push((format!("huge_batch_{}", kind), detail));
                }
            }
        }
    }
    let mut violations: Vec<Violation> = Vec::new();
    let unobservable: Vec<&(String, String)> = fails.iter().filter(|f| f.0 == "unobservable" || f.0 == "panic_in_step").collect();
    for (kind, detail) in fails.iter().filter(|f| f.0 != "unobservable" && f.0 != "panic_in_step").take(3) {
        violations.push(Violation { signature: format!("C15:shuffle:{}", kind), summary: format!("shuffle / {}: {}", kind, truncate(detail, 500)), replay: json!({"kind": "c15", "tier": ctx.tier.name(), "seed": ctx.seed, "failure": {"kind": kind, "detail": detail}}) });
    }
    // number of cells tested (both environments, all tables, plus the two kind-pair cells)
    let mut cells = 6u64 + 64 * 3 + 16;
    for t in &ts {
        for n in 2..=6 {
            cells += t.perm[n].len() as u64;
        }
        for (n, _) in &t.pos {
            cells += (n * n) as u64;
        }
        for (n, _) in &t.pair {
            cells += (n * (n - 1) / 2) as u64;
        }
    }
    let delta = 1e-9 / cells.max(1) as f64;
    let mut worst: Vec<Value> = Vec::new();
    let mut bias: Option<(String, String)> = None;
    let test = |table: &str, envk: &str, n: usize, cell: String, count: u64, total: u64, p: f64, bias: &mut Option<(String, String)>| -> f64 {
        let exp = total as f64 * p;
        let thr = bernstein_t(total as f64, p, delta);
        let dev = (count as f64 - exp).abs();
        if dev > thr && bias.is_none() {
            *bias = Some((format!("{}_table_outside_bernstein_band", table), format!("{} environment, n={} cell {}: count {} expected {:.1} +- {:.1} over {} steps", envk, n, cell, count, exp, thr, total)));
        }
        dev / thr
    };
    for (ki, t) in ts.iter().enumerate() {
        let envk = ["single-asset", "multi-asset"][ki];
        for n in 2..=6usize {
            let total = t.perm_n[n];
            if total == 0 {
                continue;
            }
            let p = 1.0 / t.perm[n].len() as f64;
            let mut mx: f64 = 0.0;
            for (i, c) in t.perm[n].iter().enumerate() {
                mx = mx.max(test("permutation", envk, n, format!("#{}", i), *c, total, p, &mut bias));
            }
            worst.push(json!({"env": envk, "table": "permutation", "n": n, "steps": total, "cells": t.perm[n].len(), "max_deviation_over_threshold": (mx * 1000.0).round() / 1000.0, "min_count": t.perm[n].iter().min(), "max_count": t.perm[n].iter().max()}));
        }
        for (n, (total, v)) in &t.pos {
            let p = 1.0 / *n as f64;
            let mut mx: f64 = 0.0;
            for item in 0..*n {
                for pos in 0..*n {
                    mx = mx.max(test("position", envk, *n, format!("item {} at position {}", item, pos), v[item * n + pos], *total, p, &mut bias));
                }
            }
            worst.push(json!({"env": envk, "table": "position", "n": n, "steps": total, "cells": n * n, "max_deviation_over_threshold": (mx * 1000.0).round() / 1000.0}));
        }
        for (n, (total, v)) in &t.pair {
            let mut mx: f64 = 0.0;
            for i in 0..*n {
                for j in (i + 1)..*n {
                    mx = mx.max(test("pair_order", envk, *n, format!("item {} before item {}", i, j), v[i * n + j], *total, 0.5, &mut bias));
                }
            }
            worst.push(json!({"env": envk, "table": "pair_order", "n": n, "steps": total, "cells": n * (n - 1) / 2, "max_deviation_over_threshold": (mx * 1000.0).round() / 1000.0}));
        }
        for k in 0..2 {
            if t.dep_pairs[k] > 0 {
                // an instruction that refers to an order created in the same step is as likely to be
                // processed before that order's placement as after it
                let what = ["cancellation", "modification"][k];
                let r = test("same_step_dependent_pair", envk, 0, format!("{} of an order created in the same step took effect", what), t.dep_effective[k], t.dep_pairs[k], 0.5, &mut bias);
                worst.push(json!({"env": envk, "table": "same_step_dependent_pair", "kind": what, "steps": t.dep_pairs[k], "took_effect": t.dep_effective[k], "max_deviation_over_threshold": (r * 1000.0).round() / 1000.0}));
            }
        }
        if t.kind_pairs > 0 {
            // instruction kinds: a cancellation is as likely to be processed before a new order as after it
            let r = test("instruction_kind", envk, 0, "first cancellation before first new order".into(), t.cancel_first, t.kind_pairs, 0.5, &mut bias);
            worst.push(json!({"env": envk, "table": "instruction_kind", "steps": t.kind_pairs, "cancel_first": t.cancel_first, "max_deviation_over_threshold": (r * 1000.0).round() / 1000.0}));
        }
    }
    for (n, table, asset_table) in &huge_tables {
        // which asset an instruction addresses must not influence where it is processed
        for (a, row) in asset_table.iter().enumerate() {
            let na: u64 = row.iter().sum();
            if asset_table.len() > 1 && na > 0 {
                let mut mxa: f64 = 0.0;
                for j in 0..8 {
                    mxa = mxa.max(test("huge_batch_asset", "multi-asset", *n, format!("instructions of asset {} at position block {}", a, j), row[j], na, 1.0 / 8.0, &mut bias));
                }
                worst.push(json!({"table": "huge_batch_asset", "n": n, "asset": a, "instructions": na, "max_deviation_over_threshold": (mxa * 1000.0).round() / 1000.0}));
            }
        }
        let mut mx: f64 = 0.0;
        for i in 0..8 {
            for j in 0..8 {
                // a cell expects n/64 of the n instructions (block sizes differ by at most one instruction)
                mx = mx.max(test("huge_batch_block", "both", *n, format!("submission block {} at position block {}", i, j), table[i][j], *n as u64, 1.0 / 64.0, &mut bias));
            }
        }
        worst.push(json!({"table": "huge_batch_block", "n": n, "cells": 64, "max_deviation_over_threshold": (mx * 1000.0).round() / 1000.0}));
    }
    if let Some((kind, detail)) = bias {
        violations.push(Violation { signature: format!("C15:shuffle:{}", kind), summary: format!("shuffle / {}: {}", kind, detail), replay: json!({"kind": "c15", "tier": ctx.tier.name(), "seed": ctx.seed, "failure": {"kind": kind, "detail": detail}}) });
    }
    let mut d = Distinct::new(8_000_000);
    for t in &ts {
        for h in &t.distinct {
            d.add(*h);
        }
    }
    let steps: u64 = ts.iter().map(|t| t.steps).sum();
    let mixed_steps: u64 = ts.iter().map(|t| t.mixed_steps).sum();
    let content_checks: u64 = ts.iter().map(|t| t.content_checks).sum();
    let replay_checks: u64 = ts.iter().map(|t| t.replay_checks).sum();
    let mut inconclusive = None;
    if let Some(u) = unobservable.first() {
        // positions could not be read off the time-stamps: nothing can be said about the shuffle
        inconclusive = Some(format!("processed positions not observable: {}", truncate(&u.1, 300)));
        violations.clear();
    }
    let inconclusive = inconclusive.or(floors(&[
        ("steps", steps, 1_000_000),
        ("mixed_steps", mixed_steps, 10_000),
        ("multi_asset_steps", ts[1].steps, 100_000),
        ("trading_off_steps", ts[0].trading_off_steps + ts[1].trading_off_steps, 100_000),
        ("twin_steps", ts[0].twin_steps + ts[1].twin_steps, 100_000),
        ("twin_steps_with_several_modifications", ts[0].twin_modify_steps + ts[1].twin_modify_steps, 20_000),
        ("content_independence_checks", content_checks, 1000),
        ("replay_checks", replay_checks, 1000),
    ]));
    let sample_perm: Vec<Value> = (2..=4).map(|n| json!({"n": n, "env": "single-asset", "permutation_counts": ts[0].perm[n]})).collect();
    let cov = json!({
        "evaluations": steps,
        "distinct_nontrivial": d.len(),
        "rule": "cases = seeded simulation steps (fresh Xoroshiro128** seed per 12 steps) whose n queued instructions all have a visible processed position (rank of the time-stamp within the batch: arrival time of new orders, end time of cancellations of active orders; contents vary independently of the shuffle generator; about a third of the steps run with trading disabled, the exact twin checks always compare with a trading-enabled twin; a fifth of the environments run next to a twin with the same history, the same batches - including steps that re-price several resting orders to one price - and clones of the generator, and must end every step with identical observable snapshots (records, views, queue order)); batch sizes 2..24, 32, 48, 64; separate tables for the single- and the multi-asset environment; distinct = distinct position maps (item -> processed position) observed; non-trivial = every recorded step (n >= 2)",
        "samples": sample_perm,
        "tables": worst,
        "cells_tested": cells,
        "delta_per_cell": delta,
        "false_alarm_bound_per_run": 1e-9,
        "mixed_kind_steps": mixed_steps,
        "multi_asset_steps": ts[1].steps,
        "trading_disabled_steps": ts[0].trading_off_steps + ts[1].trading_off_steps,
        "twin_environment_steps": ts[0].twin_steps + ts[1].twin_steps,
        "twin_steps_with_several_modifications_to_one_price": ts[0].twin_modify_steps + ts[1].twin_modify_steps,
        "content_independence_checks": content_checks,
        "replay_determinism_checks": replay_checks,
    });
    let assumptions = vec![
        "streams of Xoroshiro128** from different seeds are treated as independent; under that assumption the whole run raises a false alarm with probability <= 1e-9 (Bernstein inequality per cell, union bound over all cells)".to_string(),
        "positions are read from time-stamps at the public API; no hook is involved".to_string(),
    ];
    ctx.finish("exploration", cov, assumptions, violations, inconclusive)
}
