//! Environment-level checks: C08, C10, C11 and the environment parts of C05/C12/C13/C14.

use crate::envlib::*;
use crate::envsession::*;
use crate::report::{floors, Ctx, Violation};
use crate::util::{catch, Distinct, Sm};
use crate::with_env;
use serde_json::{json, Value};
use std::sync::atomic::{AtomicUsize, Ordering};
use std::sync::Mutex;

pub struct EnvSpec {
    pub check: &'static str,
    pub flags: u32,
    pub env_types: Vec<usize>,
    pub sessions: usize,
    pub max_steps: usize,
    pub toggle_rate: f64,
    pub offgrid_rate: f64,
}

pub struct EnvOutcome {
    pub census: EnvCensus,
    pub distinct: Distinct,
    pub samples: Vec<Value>,
    pub violations: Vec<Violation>,
    pub inconclusive: Vec<String>,
}

/// Sessions whose schedule could not be settled within the search budget carry no information either way. A handful
/// of them (at most 3 or 0.2% of the sessions) are dropped and reported in the evidence; more make the run inconclusive.
pub fn dropped_sessions_verdict(inc: &[String], sessions: u64) -> Option<String> {
    let allowed = 3u64.max(sessions / 500);
    if inc.len() as u64 > allowed {
        Some(format!("{} of {} sessions inconclusive (more than the {} tolerated): {}", inc.len(), sessions, allowed, inc[0]))
    } else {
        None
    }
}

fn run_session_dyn(cfg: &SessionCfg, cs: &mut EnvCensus, out: &mut SessionOut) -> Result<(), EnvFailure> {
    fn go<E: SimEnv>(cfg: &SessionCfg, cs: &mut EnvCensus, out: &mut SessionOut) -> Result<(), EnvFailure> {
        session::<E>(cfg, cs, out)
    }
    with_env!(cfg.env_idx, go(cfg, cs, out))
}

pub fn run_session_guarded(cfg: &SessionCfg, cs: &mut EnvCensus, out: &mut SessionOut) -> Result<(), EnvFailure> {
    match catch(|| run_session_dyn(cfg, cs, out)) {
        Ok(r) => r,
        Err(msg) => Err(EnvFailure { step: usize::MAX, monitor: "abort".into(), kind: "panic_outside_guard".into(), detail: msg, batch: vec![] }),
    }
}

pub fn run_env_spec(ctx: &Ctx, spec: &EnvSpec) -> EnvOutcome {
    let next = AtomicUsize::new(0);
    let n_viol = AtomicUsize::new(0);
    let merged: Mutex<EnvOutcome> = Mutex::new(EnvOutcome { census: EnvCensus::default(), distinct: Distinct::new(4_000_000), samples: vec![], violations: vec![], inconclusive: vec![] });
    std::thread::scope(|s| {
        for _ in 0..ctx.threads.max(1) {
            s.spawn(|| {
                crate::util::install_quiet_panic_hook();
                let mut cs = EnvCensus::default();
                let mut keys: Vec<u64> = Vec::new();
                let mut samples: Vec<Value> = Vec::new();
                let mut viols: Vec<Violation> = Vec::new();
                let mut incs: Vec<String> = Vec::new();
                loop {
                    let i = next.fetch_add(1, Ordering::Relaxed);
                    if i >= spec.sessions || n_viol.load(Ordering::Relaxed) >= 4 {
                        break;
                    }
                    let mut r = Sm::derive(ctx.seed, 0xE0000 + i as u64);
                    // one session in 41 runs in a wide market (12 or 66 assets: more assets than levels, asset indexes beyond 10 and 64)
                    let env_idx = if i % 53 == 52 { if spec.env_types.iter().all(|t| ENV_IS_MULTI[*t]) { ZERO_LEVEL_ENV_TYPES[1] } else { ZERO_LEVEL_ENV_TYPES[(i / 53) % 2] } } else if i % 41 == 40 && spec.env_types.iter().any(|t| ENV_IS_MULTI[*t]) { WIDE_ENV_TYPES[(i / 41) % WIDE_ENV_TYPES.len()] } else { spec.env_types[i % spec.env_types.len()] };
                    let cfg = SessionCfg { env_idx, flags: spec.flags, sub_seed: r.next(), max_steps: spec.max_steps, toggle_rate: spec.toggle_rate, offgrid_rate: spec.offgrid_rate, stop_after: None };
                    let mut out = SessionOut { distinct_keys: Vec::new(), sample: None };
                    let res = run_session_guarded(&cfg, &mut cs, &mut out);
                    keys.append(&mut out.distinct_keys);
                    if samples.is_empty() {
                        if let Some(s) = out.sample {
                            samples.push(s);
                        }
                    }
                    if let Err(f) = res {
                        if f.monitor == "inconclusive" {
                            incs.push(format!("{}: {}", f.kind, f.detail));
                            continue;
                        }
                        n_viol.fetch_add(1, Ordering::Relaxed);
                        let mut cfg2 = cfg.clone();
                        if f.step != usize::MAX {
                            cfg2.stop_after = Some(f.step);
                        }
                        viols.push(Violation {
                            signature: format!("{}:{}:{}", ctx.prop, f.monitor, f.kind),
                            summary: format!("{} / {} at step {} of an environment session (type index {}): {}", f.monitor, f.kind, f.step, env_idx, crate::bookcheck::truncate(&f.detail, 700)),
                            replay: json!({"kind": "env_session", "check": spec.check, "session": cfg2, "failure": f}),
                        });
                    }
                }
                let mut m = merged.lock().unwrap();
                m.census.merge(&cs);
                for k in keys {
                    m.distinct.add(k);
                }
                if m.samples.len() < 2 {
                    m.samples.extend(samples);
                }
                m.violations.extend(viols);
                m.inconclusive.extend(incs);
            });
        }
    });
    merged.into_inner().unwrap()
}

pub fn env_assumptions() -> Vec<String> {
    vec![
        "valid histories only (existing ids, volumes >= 1, on-grid prices strictly inside (0, 2^32-1), small volumes so that sums stay < 2^32); batch sizes up to the step size unless stated".into(),
        "the processing order is inferred, not hooked: the permutation rand's shuffle yields from the pre-step generator state is tried first as a hint; the verdict is only ever 'some permutation of the submitted batch reproduces the environment on a plain real order book'".into(),
        "the fallback schedule search forks the shadow through JSON (C07 is an assumption of the search, not of the verdict on the unchanged tree, where the hinted order is replayed on a never-serialised shadow)".into(),
    ]
}

const ALL_TYPES: [usize; 10] = [0, 1, 2, 3, 4, 5, 6, 7, 8, 9];
const MULTI_TYPES: [usize; 6] = [4, 5, 6, 7, 8, 9];

pub fn c08(ctx: &Ctx) -> i32 {
    let spec = EnvSpec { check: "c08", flags: E_STEP, env_types: ALL_TYPES.to_vec(), sessions: ctx.tier.pick(60_000, 1_000_000), max_steps: 30, toggle_rate: 0.06, offgrid_rate: 0.0 };
    let mut out = run_env_spec(ctx, &spec);
    // a few long sessions (up to 1500 steps in one environment)
    let lspec = EnvSpec { check: "c08", flags: E_STEP, env_types: ALL_TYPES.to_vec(), sessions: ctx.tier.pick(20, 200), max_steps: 1500, toggle_rate: 0.01, offgrid_rate: 0.0 };
    let lout = run_env_spec(ctx, &lspec);
    let long_steps = lout.census.steps;
    out.violations.extend(lout.violations);
    out.inconclusive.extend(lout.inconclusive);
    out.distinct.merge(lout.distinct);
    out.census.merge(&lout.census);
    // huge batches: single steps with tens of thousands of instructions (both environment kinds)
    let huge_n = [66_000usize, 70_001, 5000, 131_073];
    let mut huge_done = 0u64;
    for (k, n) in huge_n.iter().enumerate().take(ctx.tier.pick(3, 4)) {
        let seed = crate::util::Sm::derive(ctx.seed, 0x4855_00 + k as u64).next();
        let r = if k % 2 == 0 { crate::extra::huge_step::<bourse_de::Env<10>>(seed, *n) } else { crate::extra::huge_step::<bourse_de::MarketEnv<3, 5>>(seed, *n) };
        match r {
            Ok(_) => huge_done += *n as u64,
            Err((kind, detail)) => {
                if kind == "harness" {
                    out.inconclusive.push(format!("huge batch: {}", detail));
                } else {
                    out.violations.push(crate::report::Violation { signature: format!("C08:step:{}", kind), summary: format!("step / {} in a huge batch: {}", kind, detail), replay: json!({"kind": "huge_step", "property": "C08", "seed": seed, "n": n, "env": k % 2}) });
                }
            }
        }
    }
    let c = &out.census;
    let mut inconclusive = floors(&[
        ("instructions_in_huge_batches", huge_done, 100_000),
        ("steps_in_long_sessions", long_steps, 5000),
        ("steps", c.steps, 5000),
        ("instructions", c.instructions, 50_000),
        ("same_batch_targets", c.same_batch_targets, 500),
        ("multi_instruction_orders", c.multi_instruction_orders, 200),
        ("trades", c.trades, 2000),
        ("empty_batches", c.empty_batches, 50),
        ("full_batches", c.full_batches, 100),
        ("multi_asset_sessions", c.multi_asset_sessions, 100),
        ("steps_while_disabled", c.steps_while_disabled, 100),
    ]);
    if inconclusive.is_none() {
        inconclusive = dropped_sessions_verdict(&out.inconclusive, c.sessions);
    }
    let cov = json!({
        "evaluations": c.steps,
        "distinct_nontrivial": out.distinct.len(),
        "long_sessions": {"sessions": lspec.sessions, "steps": long_steps, "max_steps_per_session": 1500},
        "huge_batches": {"batch_sizes": huge_n, "instructions": huge_done},
        "rule": "cases = simulation steps of seeded environment sessions (most with up to 30 steps, a few with up to 1500; 10 environment types: Env<1|3|10|24>, MarketEnv<1..4 assets>), each with a G-env batch of new-order / cancel / modify instructions (several per order, targets created in the same batch, crossing prices, market orders), batch size 0..step size, trading toggled between steps; distinct = distinct (batch shape, inferred processing order) hashes; non-trivial = batches with at least 2 instructions",
        "samples": out.samples,
        "census": c,
        "sessions": c.sessions,
        "sessions_dropped_as_inconclusive": out.inconclusive.len(),
    });
    ctx.finish("exploration", cov, env_assumptions(), out.violations, inconclusive)
}

pub fn c10(ctx: &Ctx) -> i32 {
    let spec = EnvSpec { check: "c10", flags: E_INVIS, env_types: ALL_TYPES.to_vec(), sessions: ctx.tier.pick(15_000, 400_000), max_steps: 20, toggle_rate: 0.05, offgrid_rate: 0.03 };
    let mut out = run_env_spec(ctx, &spec);
    // the same judgements in sessions whose steps carry more instructions than the step has time units
    let ospec = EnvSpec { check: "c10", flags: E_INVIS | E_OVERFULL, env_types: ALL_TYPES.to_vec(), sessions: ctx.tier.pick(3000, 60_000), max_steps: 15, toggle_rate: 0.05, offgrid_rate: 0.0 };
    let oout = run_env_spec(ctx, &ospec);
    out.violations.extend(oout.violations);
    out.inconclusive.extend(oout.inconclusive);
    out.distinct.merge(oout.distinct);
    out.census.merge(&oout.census);
    let c = &out.census;
    let inconclusive = floors(&[("overfull_batches", c.overfull_batches, 1000), ("submissions_checked", c.submissions_checked, 20_000), ("steps", c.steps, 2000), ("trades", c.trades, 500), ("multi_asset_sessions", c.multi_asset_sessions, 50)]);
    let mut d = Distinct::new(10);
    let _ = &mut d;
    let cov = json!({
        "evaluations": c.submissions_checked,
        "distinct_nontrivial": out.distinct.len().max(0),
        "rule": "cases = single instruction submissions between steps, each compared through a complete observable snapshot of the environment (live book views, orders, trades, all recorded series, cached level-2 data, pending-queue length via hook H1) taken before and after; instructions are generated so that they WOULD trade / cancel / re-price if applied at once; distinct = distinct (published state of the addressed asset, instruction) pairs; non-trivial = the addressed asset's book was non-empty at submission",
        "samples": out.samples,
        "census": c,
        "sessions": c.sessions,
        "sessions_dropped_as_inconclusive": out.inconclusive.len(),
    });
    ctx.finish("exploration", cov, env_assumptions(), out.violations, inconclusive)
}

pub fn c11(ctx: &Ctx) -> i32 {
    let spec = EnvSpec { check: "c11", flags: E_REC, env_types: ALL_TYPES.to_vec(), sessions: ctx.tier.pick(60_000, 1_000_000), max_steps: 40, toggle_rate: 0.04, offgrid_rate: 0.0 };
    let mut out = run_env_spec(ctx, &spec);
    // long sessions: thousands of steps in one environment (series lengths and alignment far beyond a few dozen rows)
    let lspec = EnvSpec { check: "c11", flags: E_REC, env_types: ALL_TYPES.to_vec(), sessions: ctx.tier.pick(20, 200), max_steps: 2500, toggle_rate: 0.01, offgrid_rate: 0.0 };
    let lout = run_env_spec(ctx, &lspec);
    let long_steps = lout.census.steps;
    out.violations.extend(lout.violations);
    out.inconclusive.extend(lout.inconclusive);
    out.distinct.merge(lout.distinct);
    out.census.merge(&lout.census);
    // a level with more than 2^16 resting orders (counts and volumes beyond 16 bits in the recorded rows)
    let mut mass_rows = 0u64;
    for k in 0..ctx.tier.pick(2usize, 4usize) {
        let seed = crate::util::Sm::derive(ctx.seed, 0x4d4c_00 + k as u64).next();
        let r = if k % 2 == 0 { crate::extra::mass_level_records::<bourse_de::Env<10>>(seed, 66_000 + 500 * k) } else { crate::extra::mass_level_records::<bourse_de::MarketEnv<2, 10>>(seed, 66_000 + 500 * k) };
        match r {
            Ok(n) => mass_rows += n,
            Err((kind, detail)) => {
                if kind == "harness" {
                    out.inconclusive.push(detail);
                } else {
                    out.violations.push(crate::report::Violation { signature: format!("C11:records:{}", kind), summary: format!("records / {}: {}", kind, detail), replay: json!({"kind": "mass_level", "seed": seed, "n": 66_000 + 500 * k, "env": k % 2}) });
                }
            }
        }
    }
    let c = &out.census;
    let inconclusive = floors(&[("rows_on_levels_with_more_than_65536_orders", mass_rows, 4), ("steps_in_long_sessions", long_steps, 10_000), ("rows_compared", c.rows_compared, 10_000), ("asymmetric_rows", c.asymmetric_rows, 2000), ("deep_level_rows", c.deep_level_rows, 1000), ("trades", c.trades, 1000), ("multi_asset_sessions", c.multi_asset_sessions, 100)]);
    let cov = json!({
        "evaluations": c.rows_compared,
        "distinct_nontrivial": out.distinct.len(),
        "long_sessions": {"sessions": lspec.sessions, "steps": long_steps, "max_steps_per_session": 2500},
        "rule": "cases = recorded rows (one per asset per step; most sessions have up to 40 steps, a few up to 2500): after every step the harness reads its own row from the live book's getters and compares ALL recorded series (touch prices, side volumes, touch volumes/counts, per-level volumes and counts for every published level, per-step traded volume recomputed from the trade log) entry by entry and in length; distinct = distinct live-book view records; non-trivial = bid and ask values differ (volume and touch)",
        "samples": out.samples,
        "census": c,
        "sessions": c.sessions,
        "sessions_dropped_as_inconclusive": out.inconclusive.len(),
    });
    ctx.finish("exploration", cov, env_assumptions(), out.violations, inconclusive)
}

pub fn replay_env(doc: &Value) -> i32 {
    let cfg: SessionCfg = serde_json::from_value(doc["session"].clone()).expect("session cfg");
    let mut cs = EnvCensus::default();
    let mut out = SessionOut { distinct_keys: vec![], sample: None };
    match run_session_guarded(&cfg, &mut cs, &mut out) {
        Err(f) => {
            println!("REPRODUCED property={} {} / {} at step {}: {}", doc["property"].as_str().unwrap_or("?"), f.monitor, f.kind, f.step, f.detail);
            1
        }
        Ok(()) => {
            println!("NOT-REPRODUCED property={} (session passes on this tree)", doc["property"].as_str().unwrap_or("?"));
            0
        }
    }
}

pub fn multi_types() -> Vec<usize> {
    MULTI_TYPES.to_vec()
}
pub fn all_types() -> Vec<usize> {
    ALL_TYPES.to_vec()
}
