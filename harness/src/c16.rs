//! C16 — built-in agents emit only valid instructions and never abort a simulation.

use crate::envlib::{Ins, SimEnv};
use crate::model::*;
use crate::real::RealBook;
use crate::report::{floors, Ctx, Violation};
use crate::util::{bernstein_t, catch, Distinct, Fnv, Sm};
use bourse_de::agents::{Agent, MarketAgent, MomentumAgent, MomentumMarketAgent, MomentumParams, NoiseAgent, NoiseAgentParams, NoiseMarketAgent, RandomAgents, RandomMarketAgents};
use bourse_de::{Env, MarketEnv};
use rand::RngCore;
use rand_xoshiro::rand_core::SeedableRng;
use rand_xoshiro::Xoroshiro128StarStar;
use serde::{Deserialize, Serialize};
use serde_json::json;
use std::sync::atomic::{AtomicUsize, Ordering};
use std::sync::Mutex;

/// A legal `RngCore` that replaces a fraction of the words by boundary patterns. Agents are
/// generic over the generator, so this reaches `gen::<f32>() == 0.0` and far-tail corners.
pub struct AdvRng {
    pub inner: Xoroshiro128StarStar,
    pub ctl: Sm,
    pub rate: f64,
    pub injected: u64,
}

impl AdvRng {
    pub fn new(seed: u64, rate: f64) -> Self {
        AdvRng { inner: Xoroshiro128StarStar::seed_from_u64(seed), ctl: Sm::derive(seed, 0xAD), rate, injected: 0 }
    }
    fn pattern(&mut self) -> u64 {
        match self.ctl.below(8) {
            0 => 0,
            1 => u64::MAX,
            2 => 1,
            3 => 1 << 63,
            4 => 0xFFFF_FFFF,
            5 => 0xFFFF_FFFF_0000_0000,
            6 => 0xFF,
            _ => u64::MAX - 1,
        }
    }
}

impl RngCore for AdvRng {
    fn next_u32(&mut self) -> u32 {
        if self.rate > 0.0 && self.ctl.chance(self.rate) {
            self.injected += 1;
            self.pattern() as u32
        } else {
            self.inner.next_u32()
        }
    }
    fn next_u64(&mut self) -> u64 {
        if self.rate > 0.0 && self.ctl.chance(self.rate) {
            self.injected += 1;
            self.pattern()
        } else {
            self.inner.next_u64()
        }
    }
    fn fill_bytes(&mut self, dest: &mut [u8]) {
        self.inner.fill_bytes(dest)
    }
    fn try_fill_bytes(&mut self, dest: &mut [u8]) -> Result<(), rand::Error> {
        self.inner.try_fill_bytes(dest)
    }
}

#[derive(Clone, Debug, Serialize, Deserialize)]
pub struct AgentCfg {
    pub kind: u8, // 0 random, 1 noise, 2 momentum
    pub market: bool,
    pub asset: usize,
    pub ticks: Vec<u32>,
    pub n_agents: u16,
    pub id_start: u32,
    pub tick_range: (u32, u32),
    pub vol_range: (u32, u32),
    pub activity: f32,
    pub p_limit: f32,
    pub p_market: f32,
    pub p_cancel: f32,
    pub trade_vol: u32,
    pub mu: f64,
    pub sigma: f64,
    pub decay: f64,
    pub demand: f64,
    pub scale: f64,
    pub order_ratio: f64,
    pub start_book: u8, // 0 empty, 1 bids only, 2 asks only, 3 two-sided
    pub center: u32,
    pub steps: usize,
    pub seed: u64,
    pub adv_rate: f64,
    /// 0 trading enabled throughout; 1 disabled from the start; 2 disabled half-way. While trading is disabled the
    /// harness quotes are *crossed* (bids above asks), which is a legitimate state of a no-trading period
    #[serde(default)]
    pub trading_mode: u8,
}

pub trait Host {
    type E: SimEnv;
    fn update<R: RngCore>(&mut self, env: &mut Self::E, rng: &mut R);
}
pub struct Single<A: Agent>(pub A);
impl<A: Agent> Host for Single<A> {
    type E = Env<10>;
    fn update<R: RngCore>(&mut self, env: &mut Env<10>, rng: &mut R) {
        self.0.update(env, rng)
    }
}
pub struct Multi<A: MarketAgent>(pub A);
impl<A: MarketAgent> Host for Multi<A> {
    type E = MarketEnv<2, 10>;
    fn update<R: RngCore>(&mut self, env: &mut MarketEnv<2, 10>, rng: &mut R) {
        self.0.update(env, rng)
    }
}

#[derive(Clone, Debug, Default, Serialize)]
pub struct AgentCensus {
    pub configs: u64,
    pub updates: u64,
    pub new_orders: u64,
    pub limit_buys: u64,
    pub limit_sells: u64,
    pub market_orders: u64,
    pub cancellations: u64,
    pub adversarial_configs: u64,
    pub injected_words: u64,
    pub sigma10_configs: u64,
    pub p0_knobs: u64,
    pub p1_knobs: u64,
    pub clamped_high_prices: u64,
    pub clamped_zero_prices: u64,
    pub per_kind: [u64; 6],
    pub start_books: [u64; 4],
    pub trades: u64,
    pub updates_while_trading_disabled: u64,
    pub updates_on_crossed_book: u64,
    pub saturated_momentum_updates: u64,
}
impl AgentCensus {
    pub fn merge(&mut self, o: &AgentCensus) {
        macro_rules! add { ($($f:ident),*) => { $( self.$f += o.$f; )* } }
        add!(configs, updates, new_orders, limit_buys, limit_sells, market_orders, cancellations, adversarial_configs, injected_words, sigma10_configs, p0_knobs, p1_knobs, clamped_high_prices, clamped_zero_prices, trades, updates_while_trading_disabled, updates_on_crossed_book, saturated_momentum_updates);
        for i in 0..6 {
            self.per_kind[i] += o.per_kind[i];
        }
        for i in 0..4 {
            self.start_books[i] += o.start_books[i];
        }
    }
}

/// Bernoulli tallies for knobs with p in (0,1): (successes, trials, p)
pub type Tallies = Vec<(u64, u64, f64, &'static str)>;

pub fn random_cfg(rng: &mut Sm, i: usize) -> AgentCfg {
    let kind = (i % 3) as u8;
    let market = (i / 3) % 2 == 1;
    let ticks: Vec<u32> = if market { vec![rng.range(1, 10) as u32, rng.range(1, 10) as u32] } else { vec![rng.range(1, 10) as u32] };
    let asset = if market { rng.below(2) as usize } else { 0 };
    let prob = |rng: &mut Sm| -> f32 {
        match rng.below(5) {
            0 => 0.0,
            1 => 1.0,
            2 => 1.5,
            _ => (rng.range(5, 95) as f32) / 100.0,
        }
    };
    // a twentieth of the random-agent tick ranges sit at the very top of the price range (products just below 2^32)
    let top_ticks = rng.chance(0.05);
    let top_hi = (PMAX - 1) / ticks[asset];
    // ... and a few start at tick 0 (price 0 is a multiple of every tick size)
    let lo = if rng.chance(0.04) { 0 } else { rng.range(1, 2000) as u32 };
    let sigma = *rng.pick(&[0.1, 1.0, 1.0, 10.0, 10.0, 0.0]);
    AgentCfg {
        kind,
        market,
        asset,
        ticks,
        // populations: usually 1..40, a few crowds, and one configuration in fifty with no trader at all (must stay silent)
        n_agents: if rng.chance(0.03) { rng.range(65, 300) as u16 } else if rng.chance(0.02) { 0 } else { rng.range(1, 40) as u16 },
        id_start: rng.below(1000) as u32,
        tick_range: if top_ticks { (top_hi - rng.range(2, 60) as u32, top_hi) } else { (lo, lo + rng.range(1, 60) as u32) },
        vol_range: {
            let v = rng.range(1, 100) as u32;
            (v, v + rng.range(1, 50) as u32)
        },
        activity: prob(rng),
        p_limit: prob(rng),
        p_market: prob(rng),
        p_cancel: prob(rng),
        trade_vol: rng.range(1, 200) as u32,
        // finite but extreme location parameters (samples overflow to infinity / underflow to zero) now and then
        mu: if rng.chance(0.03) { *rng.pick(&[700.0, -700.0, 300.0]) } else { *rng.pick(&[0.0, 1.0, 3.0, -1.0]) },
        sigma,
        decay: *rng.pick(&[0.1, 0.5, 1.0, 0.0]),
        demand: *rng.pick(&[0.5, 5.0, 50.0]),
        scale: *rng.pick(&[0.1, 0.5, 2.0]),
        order_ratio: *rng.pick(&[0.0, 0.5, 1.0, 2.0]),
        start_book: rng.below(4) as u8,
        // a tenth of the simulations run at the very bottom of the price range (asks on the first ticks)
        center: if rng.chance(0.1) { 0 } else { rng.range(100, 50_000) as u32 },
        steps: rng.range(1, 200) as usize,
        seed: rng.next(),
        adv_rate: if rng.chance(0.3) { *rng.pick(&[0.02, 0.1, 0.3]) } else { 0.0 },
        trading_mode: match rng.below(10) { 0 | 1 => 1, 2 => 2, _ => 0 },
    }
}

fn noise_params(c: &AgentCfg) -> NoiseAgentParams {
    NoiseAgentParams { tick_size: c.ticks[c.asset], p_limit: c.p_limit, p_market: c.p_market, p_cancel: c.p_cancel, trade_vol: c.trade_vol, price_dist_mu: c.mu, price_dist_sigma: c.sigma }
}
fn mom_params(c: &AgentCfg) -> MomentumParams {
    MomentumParams { tick_size: c.ticks[c.asset], p_cancel: c.p_cancel, trade_vol: c.trade_vol, decay: c.decay, demand: c.demand, scale: c.scale, order_ratio: c.order_ratio, price_dist_mu: c.mu, price_dist_sigma: c.sigma }
}

pub fn run_cfg(c: &AgentCfg, cs: &mut AgentCensus, tallies: &mut Tallies) -> Result<(), (String, String)> {
    let t = c.ticks[c.asset];
    match (c.kind, c.market) {
        (0, false) => run_host(Single(RandomAgents::new(c.n_agents as usize, c.tick_range, c.vol_range, t, c.activity)), c, cs, tallies),
        (1, false) => run_host(Single(NoiseAgent::new(c.id_start, c.n_agents, noise_params(c))), c, cs, tallies),
        (2, false) => run_host(Single(MomentumAgent::new(c.id_start, c.n_agents, mom_params(c))), c, cs, tallies),
        (0, true) => run_host(Multi(RandomMarketAgents::new(c.asset, c.n_agents as usize, c.tick_range, c.vol_range, t, c.activity)), c, cs, tallies),
        (1, true) => run_host(Multi(NoiseMarketAgent::new(c.asset, c.id_start, c.n_agents, noise_params(c))), c, cs, tallies),
        _ => run_host(Multi(MomentumMarketAgent::new(c.id_start, c.n_agents, c.asset, mom_params(c))), c, cs, tallies),
    }
}

const HARNESS_TRADER: u32 = 4_000_000;

fn run_host<H: Host>(mut host: H, c: &AgentCfg, cs: &mut AgentCensus, tallies: &mut Tallies) -> Result<(), (String, String)> {
    let bad = |k: &str, d: String| -> Result<(), (String, String)> { Err((k.to_string(), d)) };
    let assets = <H::E as SimEnv>::ASSETS;
    let a = c.asset;
    let tick = c.ticks[a];
    let mut trading = c.trading_mode != 1;
    let mut env = <H::E as SimEnv>::create(0, &c.ticks, 1000, trading);
    let mut rng = AdvRng::new(c.seed, c.adv_rate);
    let mut hr = Sm::derive(c.seed, 0x16);
    cs.configs += 1;
    cs.per_kind[(c.kind as usize) + if c.market { 3 } else { 0 }] += 1;
    cs.start_books[c.start_book as usize] += 1;
    if c.adv_rate > 0.0 {
        cs.adversarial_configs += 1;
    }
    if c.sigma >= 10.0 && c.kind != 0 {
        cs.sigma10_configs += 1;
    }
    // starting book from harness-owned quotes
    let center = (c.center / tick).max(20) * tick;
    let quote = |env: &mut H::E, hr: &mut Sm, crossed: bool| {
        for k in 0..assets {
            let tk = c.ticks[k];
            if crossed && c.center != 0 {
                // no-trading period: harness bids rest above harness asks
                let ctr = (c.center / tk).max(20) * tk;
                let _ = env.place(k, true, hr.range(50, 500) as u32, HARNESS_TRADER, Some(ctr + tk * hr.range(1, 8) as u32));
                let _ = env.place(k, false, hr.range(50, 500) as u32, HARNESS_TRADER, Some(ctr - tk * hr.range(1, 8) as u32));
                continue;
            }
            if c.center == 0 {
                // bottom of the range: asks on the first three ticks, bids (if any) cannot exist below
                if c.start_book != 1 {
                    let _ = env.place(k, false, hr.range(50, 500) as u32, HARNESS_TRADER, Some(tk * hr.range(1, 3) as u32));
                }
                continue;
            }
            let ctr = (c.center / tk).max(20) * tk;
            if c.start_book == 1 || c.start_book == 3 {
                let _ = env.place(k, true, hr.range(50, 500) as u32, HARNESS_TRADER, Some(ctr - tk * hr.range(1, 5) as u32));
            }
            if c.start_book == 2 || c.start_book == 3 {
                let _ = env.place(k, false, hr.range(50, 500) as u32, HARNESS_TRADER, Some(ctr + tk * hr.range(1, 5) as u32));
            }
        }
    };
    quote(&mut env, &mut hr, !trading);
    env.do_step(&mut rng);
    let _ = center;
    // own orders: everything the agent created (per asset ids)
    let mut own: Vec<usize> = Vec::new();
    let ids_ok = |trader: u32| -> bool {
        if c.kind == 0 {
            (trader as usize) < c.n_agents as usize
        } else {
            trader >= c.id_start && trader < c.id_start + c.n_agents as u32
        }
    };
    let det = c.adv_rate == 0.0;
    let mut t_act = (0u64, 0u64);
    let mut t_lim = (0u64, 0u64);
    let mut t_mkt = (0u64, 0u64);
    let mut t_can = (0u64, 0u64);
    // momentum agents: the documented signal recomputed from the mids this monitor observed before each update
    let mut mom_m = 0.0f64;
    let mut mom_last: Option<f64> = None;
    if c.kind == 0 {
        if c.activity <= 0.0 { cs.p0_knobs += 1 } else if c.activity >= 1.0 { cs.p1_knobs += 1 }
    } else {
        for p in [c.p_cancel, if c.kind == 1 { c.p_limit } else { 0.5 }, if c.kind == 1 { c.p_market } else { 0.5 }] {
            if p <= 0.0 { cs.p0_knobs += 1 } else if p >= 1.0 { cs.p1_knobs += 1 }
        }
    }

    for step in 0..c.steps {
        if c.trading_mode == 2 && step == c.steps / 2 {
            trading = false;
            env.set_trading(false);
            quote(&mut env, &mut hr, true);
            if let Err(p) = catch(|| env.do_step(&mut rng)) {
                return bad("abort_in_step", format!("harness-only step panicked: {}", p));
            }
        }
        if step % 7 == 3 {
            quote(&mut env, &mut hr, !trading);
        }
        if !trading {
            cs.updates_while_trading_disabled += 1;
            let v = env.book(a).views();
            if v.bid_vol > 0 && v.ask_vol > 0 && v.bid_ask.0 >= v.bid_ask.1 {
                cs.updates_on_crossed_book += 1;
            }
        }
        let before: Vec<Vec<ROrder>> = (0..assets).map(|k| env.env_orders(k)).collect();
        let pend_before = env.pending().map(|p| p.len());
        let mid = env.book(a).views().mid.map(f64::from_bits);
        let res = catch(|| host.update(&mut env, &mut rng));
        cs.updates += 1;
        if let Err(p) = res {
            return bad("abort_in_update", format!("update panicked at step {} (mid {:?}): {}", step, mid, p));
        }
        let mid = match mid {
            Some(m) => m,
            None => return bad("mid_price_unavailable", "mid_price panicked".into()),
        };
        // instructions of this update
        let after: Vec<Vec<ROrder>> = (0..assets).map(|k| env.env_orders(k)).collect();
        for k in 0..assets {
            if after[k][..before[k].len()] != before[k][..] {
                return bad("update_changed_existing_orders", format!("asset {}: an existing order record changed during update", k));
            }
            if k != a && after[k].len() != before[k].len() {
                return bad("order_on_wrong_asset", format!("agent configured for asset {} created an order on asset {}", a, k));
            }
        }
        let created: Vec<ROrder> = after[a][before[a].len()..].to_vec();
        let mut n_limit = vec![0u32; 0];
        let _ = &mut n_limit;
        let mut per_trader_limit: std::collections::BTreeMap<u32, u32> = Default::default();
        let mut per_trader_market: std::collections::BTreeMap<u32, u32> = Default::default();
        for o in &created {
            cs.new_orders += 1;
            own.push(o.id);
            if o.status != NEW {
                return bad("created_order_not_new", format!("{:?}", o));
            }
            if !ids_ok(o.trader) {
                return bad("foreign_trader_id", format!("{:?} (agent ids start {} count {})", o, c.id_start, c.n_agents));
            }
            let is_market = (o.bid && o.price == PMAX) || (!o.bid && o.price == 0);
            // a limit sell clamped to 2^32-1 on tick 1 is indistinguishable from... a market *buy* only; sells at PMAX are limits
            if is_market && c.kind != 0 {
                cs.market_orders += 1;
                *per_trader_market.entry(o.trader).or_default() += 1;
                if o.vol != c.trade_vol {
                    return bad("wrong_volume", format!("{:?} expected volume {}", o, c.trade_vol));
                }
                continue;
            }
            if o.price % tick != 0 {
                return bad("off_grid_price", format!("{:?} tick {}", o, tick));
            }
            if o.bid { cs.limit_buys += 1 } else { cs.limit_sells += 1 }
            *per_trader_limit.entry(o.trader).or_default() += 1;
            if c.kind == 0 {
                if per_trader_limit[&o.trader] > 1 {
                    return bad("random_agent_two_orders_in_one_update", format!("trader {} created {} orders in one update", o.trader, per_trader_limit[&o.trader]));
                }
                let k = o.price / tick;
                if k < c.tick_range.0 || k >= c.tick_range.1 {
                    return bad("price_outside_tick_range", format!("{:?} tick range {:?} tick {}", o, c.tick_range, tick));
                }
                if o.vol < c.vol_range.0 || o.vol >= c.vol_range.1 {
                    return bad("wrong_volume", format!("{:?} volume range {:?}", o, c.vol_range));
                }
            } else {
                if o.vol != c.trade_vol {
                    return bad("wrong_volume", format!("{:?} expected volume {}", o, c.trade_vol));
                }
                if o.bid && (o.price as f64) > mid {
                    return bad("buy_above_mid", format!("{:?} mid {}", o, mid));
                }
                if !o.bid && (o.price as f64) < mid {
                    return bad("sell_below_mid", format!("{:?} mid {}", o, mid));
                }
                if o.price >= PMAX - 10 * tick {
                    cs.clamped_high_prices += 1;
                }
                if o.price == 0 {
                    cs.clamped_zero_prices += 1;
                }
            }
        }
        // cancellations (H1) — only own orders that were Active when the agent looked
        let mut cancelled_now: Vec<usize> = Vec::new();
        if let (Some(p), Some(pb)) = (env.pending(), pend_before) {
            for ins in &p[pb..] {
                match ins {
                    Ins::Cancel { asset, id } => {
                        cs.cancellations += 1;
                        cancelled_now.push(*id);
                        if *asset != a {
                            return bad("cancel_on_wrong_asset", format!("{:?}", ins));
                        }
                        if !own.contains(id) {
                            return bad("cancelled_foreign_order", format!("{:?}: order {:?} is not the agent's", ins, before[a].get(*id)));
                        }
                        if before[a][*id].status != ACTIVE {
                            return bad("cancelled_inactive_order", format!("{:?}: order was {:?} when the agent looked", ins, before[a][*id]));
                        }
                    }
                    Ins::Modify { .. } => return bad("unexpected_modify", format!("{:?}", ins)),
                    Ins::New { .. } => {}
                }
            }
            let n_new = p[pb..].iter().filter(|i| matches!(i, Ins::New { .. })).count();
            if n_new != created.len() {
                return bad("created_orders_not_submitted", format!("{} orders created but {} new-order instructions queued", created.len(), n_new));
            }
        }
        let hooks = pend_before.is_some();
        // documented probabilities
        let own_active: Vec<usize> = own.iter().copied().filter(|id| *id < before[a].len() && before[a][*id].status == ACTIVE).collect();
        let n = c.n_agents as u64;
        if c.kind == 0 {
            let actions = created.len() as u64 + cancelled_now.len() as u64;
            if c.activity <= 0.0 && (actions > 0 && (hooks || !created.is_empty())) {
                return bad("action_at_probability_0", format!("activity rate 0 but {} instructions in one update", actions));
            }
            if c.activity >= 1.0 && hooks && actions != n {
                return bad("no_action_at_probability_1", format!("activity rate {} with {} agents but {} instructions in one update", c.activity, n, actions));
            }
            if c.activity > 0.0 && c.activity < 1.0 && hooks {
                t_act.0 += actions;
                t_act.1 += n;
            }
        } else {
            if hooks {
                if c.p_cancel <= 0.0 && !cancelled_now.is_empty() {
                    return bad("cancel_at_probability_0", format!("p_cancel = 0 but orders {:?} were cancelled", cancelled_now));
                }
                if c.p_cancel >= 1.0 {
                    for id in &own_active {
                        if !cancelled_now.contains(id) {
                            return bad("no_cancel_at_probability_1", format!("p_cancel = {} but own active order {:?} received no cancellation", c.p_cancel, before[a][*id]));
                        }
                    }
                }
                if c.p_cancel > 0.0 && c.p_cancel < 1.0 {
                    t_can.0 += cancelled_now.len() as u64;
                    t_can.1 += own_active.len() as u64;
                }
            }
            if c.kind == 2 {
                // activity follows |demand*tanh(scale*M)|/n: at or above 1 every trader submits exactly one market order
                // (and one limit order if ratio times that is at or above 1) on the side given by the sign of M; M = 0: nothing
                let nf = c.n_agents as f64;
                let (m_new, p) = match mom_last {
                    Some(lp) => {
                        let mm = mom_m * (1.0 - c.decay) + c.decay * (mid - lp);
                        (mm, (c.demand * f64::tanh(c.scale * mm)).abs() / nf)
                    }
                    None => (0.0, 0.0),
                };
                for o in &created {
                    if m_new.abs() > 1e-9 && o.bid != (m_new > 0.0) {
                        return bad("momentum_wrong_side", format!("step {}: M = {} but {:?}", step, m_new, o));
                    }
                }
                if m_new == 0.0 && !created.is_empty() {
                    return bad("action_at_probability_0", format!("step {}: momentum 0 but {} orders submitted", step, created.len()));
                }
                if m_new != 0.0 && p.is_finite() && p >= 1.001 {
                    cs.saturated_momentum_updates += 1;
                    for tr in c.id_start..c.id_start + c.n_agents as u32 {
                        let mk = per_trader_market.get(&tr).copied().unwrap_or(0);
                        let lm = per_trader_limit.get(&tr).copied().unwrap_or(0);
                        if mk != 1 {
                            return bad("no_action_at_probability_1", format!("step {}: M = {:.4}, |demand*tanh(scale*M)|/n = {:.3} >= 1 but trader {} submitted {} market orders", step, m_new, p, tr, mk));
                        }
                        if c.order_ratio * p >= 1.001 && lm != 1 {
                            return bad("no_action_at_probability_1", format!("step {}: M = {:.4}, ratio*p = {:.3} >= 1 but trader {} submitted {} limit orders", step, m_new, c.order_ratio * p, tr, lm));
                        }
                        if c.order_ratio == 0.0 && lm != 0 {
                            return bad("action_at_probability_0", format!("step {}: order ratio 0 but trader {} submitted a limit order", step, tr));
                        }
                    }
                }
                mom_m = m_new;
                mom_last = Some(mid);
            }
            if c.kind == 1 {
                let traders = c.id_start..c.id_start + c.n_agents as u32;
                for (p, map, what, tl) in [(c.p_limit, &per_trader_limit, "limit", &mut t_lim), (c.p_market, &per_trader_market, "market", &mut t_mkt)] {
                    let total: u32 = map.values().sum();
                    if p <= 0.0 && total > 0 {
                        return bad("action_at_probability_0", format!("p_{} = 0 but {} {} orders in one update", what, total, what));
                    }
                    if p >= 1.0 {
                        for tr in traders.clone() {
                            // a limit sell clamped to 2^32-1 cannot be told from nothing else; a limit buy at price 2^32-1 does not occur
                            if map.get(&tr).copied().unwrap_or(0) != 1 {
                                return bad("no_action_at_probability_1", format!("p_{} = {} but trader {} submitted {} {} orders in one update", what, p, tr, map.get(&tr).copied().unwrap_or(0), what));
                            }
                        }
                    }
                    if p > 0.0 && p < 1.0 {
                        tl.0 += total as u64;
                        tl.1 += n;
                    }
                }
            }
        }
        // the step
        let tr_before: usize = (0..assets).map(|k| env.env_trades(k).len()).sum();
        if let Err(p) = catch(|| env.do_step(&mut rng)) {
            return bad("abort_in_step", format!("step {} panicked: {}", step, p));
        }
        cs.trades += ((0..assets).map(|k| env.env_trades(k).len()).sum::<usize>() - tr_before) as u64;
        let post = env.env_orders(a);
        // without hooks: a cancelled order that is not the agent's own reveals a foreign cancellation
        for (o0, o1) in after[a].iter().zip(post.iter()) {
            let was_market = (o0.bid && o0.price == PMAX) || (!o0.bid && o0.price == 0);
            if o0.status == ACTIVE && o1.status == CANCELLED && !was_market && !own.contains(&o1.id) {
                return bad("cancelled_foreign_order", format!("{:?} was cancelled during the step but is not the agent's", o1));
            }
        }
        if c.kind == 0 {
            // a random agent never holds more than one live order
            let mut live: std::collections::BTreeMap<u32, u32> = Default::default();
            for o in post.iter().filter(|o| o.status == ACTIVE && o.trader != HARNESS_TRADER) {
                *live.entry(o.trader).or_default() += 1;
            }
            if let Some((tr, k)) = live.iter().find(|(_, k)| **k > 1) {
                return bad("random_agent_two_live_orders", format!("trader {} holds {} live orders after step {}", tr, k, step));
            }
        }
    }
    cs.injected_words += rng.injected;
    if det {
        for (tl, p, name) in [(t_act, c.activity, "activity_rate"), (t_lim, c.p_limit, "p_limit"), (t_mkt, c.p_market, "p_market"), (t_can, c.p_cancel, "p_cancel")] {
            if tl.1 > 0 {
                tallies.push((tl.0, tl.1, p as f64, name));
            }
        }
    }
    Ok(())
}

pub fn c16(ctx: &Ctx) -> i32 {
    let n_cfg = ctx.tier.pick(60_000, 1_500_000);
    let next = AtomicUsize::new(0);
    let n_viol = AtomicUsize::new(0);
    let merged = Mutex::new((AgentCensus::default(), Tallies::new(), Vec::<Violation>::new(), Vec::<u64>::new(), Vec::<serde_json::Value>::new()));
    std::thread::scope(|s| {
        for _ in 0..ctx.threads.max(1) {
            s.spawn(|| {
                crate::util::install_quiet_panic_hook();
                let mut cs = AgentCensus::default();
                let mut tl = Tallies::new();
                let mut viols = Vec::new();
                let mut keys = Vec::new();
                let mut samples = Vec::new();
                loop {
                    let i = next.fetch_add(1, Ordering::Relaxed);
                    if i >= n_cfg || n_viol.load(Ordering::Relaxed) >= 8 {
                        break;
                    }
                    let mut r = Sm::derive(ctx.seed, 0x16_0000 + i as u64);
                    let cfg = random_cfg(&mut r, i);
                    let before_new = cs.new_orders + cs.cancellations;
                    let res = match catch(|| run_cfg(&cfg, &mut cs, &mut tl)) {
                        Ok(r) => r,
                        Err(p) => Err(("panic_outside_guard".to_string(), p)),
                    };
                    if cs.new_orders + cs.cancellations > before_new {
                        let mut h = Fnv::new();
                        h.bytes(serde_json::to_string(&cfg).unwrap().as_bytes());
                        keys.push(h.finish());
                        if samples.is_empty() {
                            samples.push(json!(cfg));
                        }
                    }
                    if let Err((kind, detail)) = res {
                        n_viol.fetch_add(1, Ordering::Relaxed);
                        viols.push(Violation {
                            signature: format!("C16:agent:{}", kind),
                            summary: format!("{} agent ({}): {} — {}", ["random", "noise", "momentum"][cfg.kind as usize], if cfg.market { "multi-asset" } else { "single-asset" }, kind, crate::bookcheck::truncate(&detail, 500)),
                            replay: json!({"kind": "c16", "cfg": cfg, "failure": {"kind": kind, "detail": detail}}),
                        });
                    }
                }
                let mut m = merged.lock().unwrap();
                m.0.merge(&cs);
                m.1.extend(tl);
                m.2.extend(viols);
                m.3.extend(keys);
                if m.4.len() < 3 {
                    m.4.extend(samples);
                }
            });
        }
    });
    let (cs, tallies, mut violations, keys, samples) = merged.into_inner().unwrap();
    // frequency bands for p in (0,1): pool tallies per (knob, p)
    let mut pooled: std::collections::BTreeMap<(String, u64), (u64, u64, f64)> = Default::default();
    for (s, t, p, name) in &tallies {
        let e = pooled.entry((name.to_string(), (p * 1000.0).round() as u64)).or_insert((0, 0, *p));
        e.0 += s;
        e.1 += t;
    }
    let delta = 1e-9 / pooled.len().max(1) as f64;
    let mut bands = Vec::new();
    for ((name, _), (s, t, p)) in &pooled {
        let thr = bernstein_t(*t as f64, *p, delta);
        let dev = (*s as f64 - *t as f64 * *p).abs();
        bands.push(json!({"knob": name, "p": p, "trials": t, "successes": s, "deviation_over_threshold": ((dev / thr) * 1000.0).round() / 1000.0}));
        if dev > thr {
            violations.push(Violation {
                signature: format!("C16:agent:frequency_outside_band:{}", name),
                summary: format!("{} = {}: {} actions in {} trials, expected {:.0} +- {:.0}", name, p, s, t, *t as f64 * *p, thr),
                replay: json!({"kind": "c16_frequency", "knob": name, "p": p}),
            });
        }
    }
    let mut d = Distinct::new(4_000_000);
    for k in keys {
        d.add(k);
    }
    let inconclusive = floors(&[
        ("configs", cs.configs, 1000),
        ("new_orders", cs.new_orders, 50_000),
        ("cancellations", cs.cancellations, 5000),
        ("adversarial_configs", cs.adversarial_configs, 200),
        ("sigma10_configs", cs.sigma10_configs, 200),
        ("p0_knobs", cs.p0_knobs, 200),
        ("p1_knobs", cs.p1_knobs, 200),
        ("limit_sells", cs.limit_sells, 5000),
        ("limit_buys", cs.limit_buys, 5000),
        ("market_orders", cs.market_orders, 2000),
        ("updates_while_trading_disabled", cs.updates_while_trading_disabled, 5000),
        ("updates_on_crossed_book", cs.updates_on_crossed_book, 2000),
        ("saturated_momentum_updates", cs.saturated_momentum_updates, 2000),
    ]);
    let cov = json!({
        "evaluations": cs.updates,
        "distinct_nontrivial": d.len(),
        "rule": "cases = agent update calls inside seeded simulations (one agent family per simulation so ownership is unambiguous: random / noise / momentum, single- and multi-asset; ticks 1..10, agent counts 1..40, probabilities in {0, (0,1), 1, 1.5}, sigma in {0.1, 1, 10}, empty / bid-only / ask-only / two-sided starting books, 1..200 steps; 30% of the simulations spend all or the second half of their steps with trading disabled on a crossed book; 30% of the simulations under an adversarial RngCore that injects boundary words); judged: every order created by an update (grid, tick range, side of the observed mid, volume, trader id, asset), every queued cancellation (hook H1: own order, Active at the look), one live order per random agent, p=0 never / p>=1 exactly once per trader (for momentum agents the probability |demand*tanh(scale*M)|/n and the side sign(M) are recomputed from the mids observed before each update), Bernstein bands for p in (0,1), and no panic in update/step; distinct = distinct configurations; non-trivial = the configuration emitted at least one instruction",
        "samples": samples,
        "census": cs,
        "frequency_bands": bands,
    });
    let assumptions = vec![
        "parameterisations are consistent with the environment: agent tick size = environment tick size, non-empty tick/volume ranges with products below 2^32, finite distribution parameters".to_string(),
        "frequency bands: Bernstein inequality, delta = 1e-9 / number of bands, only for simulations driven by the plain seeded generator".to_string(),
    ];
    ctx.finish("exploration", cov, assumptions, violations, inconclusive)
}

pub fn replay_c16(doc: &serde_json::Value) -> i32 {
    let cfg: AgentCfg = match serde_json::from_value(doc["cfg"].clone()) {
        Ok(c) => c,
        Err(_) => return 2,
    };
    let mut cs = AgentCensus::default();
    let mut tl = Tallies::new();
    match catch(|| run_cfg(&cfg, &mut cs, &mut tl)) {
        Ok(Ok(())) => {
            println!("NOT-REPRODUCED property=C16");
            0
        }
        Ok(Err((k, d))) => {
            println!("REPRODUCED property=C16 {}: {}", k, d);
            1
        }
        Err(p) => {
            println!("REPRODUCED property=C16 panic: {}", p);
            1
        }
    }
}
