//! Operation alphabet at book level, histories, and the lock-step runner that drives the real
//! book next to the reference engine and the independent monitors.

use crate::model::*;
use crate::real::{Obs, RealBook, Views};
use crate::util::{catch, Fnv};
use serde::{Deserialize, Serialize};

#[derive(Clone, Debug, PartialEq, Serialize, Deserialize)]
pub enum Op {
    /// set_time(now + d)
    Advance(u64),
    Create { bid: bool, vol: u32, trader: u32, price: Option<u32> },
    Place(usize),
    CreatePlace { bid: bool, vol: u32, trader: u32, price: Option<u32> },
    Cancel(usize),
    Modify { id: usize, price: Option<u32>, vol: Option<u32> },
    EvNew(usize),
    EvCancel(usize),
    EvModify { id: usize, price: Option<u32>, vol: Option<u32> },
    SetTrading(bool),
    ResetTradeVol,
    /// replace the book by a copy reloaded through route r (0 string, 1 pretty string, 2 file, 3 pretty file)
    Reload(u8),
    /// C07 only: keep a reloaded copy alive next to the original and drive both from here on
    Fork(u8),
    /// drain probe: market order for the whole opposite volume the *reference* expects to rest
    Drain { bid: bool },
}

#[derive(Clone, Debug, PartialEq, Serialize, Deserialize)]
pub struct Cfg {
    pub tick: u32,
    pub levels: usize,
    pub t0: u64,
    pub trading0: bool,
}

#[derive(Clone, Debug, PartialEq, Serialize, Deserialize)]
pub struct History {
    pub cfg: Cfg,
    pub ops: Vec<Op>,
}

impl History {
    pub fn hash(&self) -> u64 {
        let mut h = Fnv::new();
        h.bytes(serde_json::to_string(self).unwrap().as_bytes());
        h.finish()
    }
}

pub const M_REF: u32 = 1;
pub const M_VIEWS: u32 = 2;
pub const M_LEDGER: u32 = 4;
pub const M_LIFE: u32 = 8;
pub const M_MODIFY: u32 = 16;
pub const M_GRID: u32 = 32;
pub const M_NOTRADE: u32 = 64;
pub const M_RELOAD: u32 = 128;
pub const M_REACH: u32 = 256;
/// compare the JSON text around redundant requests (C04) — costs a serialisation per op
pub const M_JSON_NOOP: u32 = 512;
pub const M_ALL_BOOK: u32 = M_REF | M_VIEWS | M_LEDGER | M_LIFE | M_MODIFY | M_GRID | M_NOTRADE | M_REACH;

#[derive(Clone, Debug, Serialize, Deserialize)]
pub struct Failure {
    pub op_index: usize,
    pub monitor: String,
    /// stable class of the failure, used for known-finding signatures
    pub kind: String,
    pub detail: String,
}

fn fail<T>(i: usize, monitor: &str, kind: &str, detail: String) -> Result<T, Failure> {
    Err(Failure { op_index: i, monitor: monitor.into(), kind: kind.into(), detail })
}

/// Event census: what the monitors actually saw.
#[derive(Clone, Debug, Default, Serialize)]
pub struct Census {
    pub histories: u64,
    pub ops: u64,
    pub creations: u64,
    pub rejected_creations: u64,
    pub placements: u64,
    pub trades: u64,
    pub partial_fills_passive: u64,
    pub multi_level_sweeps: u64,
    pub level_exhaustions: u64,
    pub market_remainder_discarded: u64,
    pub market_rejected: u64,
    pub cancels_effective: u64,
    pub cancel_partially_filled_head_bid: u64,
    pub cancel_partially_filled_head_ask: u64,
    pub modifies_effective: u64,
    pub modifies_pure_reduction: u64,
    pub modifies_requeue: u64,
    pub modifies_that_traded: u64,
    pub redundant_requests: u64,
    pub toggles: u64,
    pub ops_while_disabled: u64,
    pub crossed_states: u64,
    pub reloads: u64,
    pub forks: u64,
    pub fork_comparisons: u64,
    pub drains: u64,
    pub tie_insertions: u64,
    pub tied_histories: u64,
    pub states_checked: u64,
    pub sweeps_bid_side_passive: u64,
    pub sweeps_ask_side_passive: u64,
    pub trades_after_reenable: u64,
    pub max_resting: u64,
    pub offgrid_modifies: u64,
    pub pre_tie_failures_left_to_owner: u64,
}

impl Census {
    pub fn merge(&mut self, o: &Census) {
        macro_rules! add { ($($f:ident),*) => { $( self.$f += o.$f; )* } }
        add!(
            histories, ops, creations, rejected_creations, placements, trades, partial_fills_passive,
            multi_level_sweeps, level_exhaustions, market_remainder_discarded, market_rejected,
            cancels_effective, cancel_partially_filled_head_bid, cancel_partially_filled_head_ask,
            modifies_effective, modifies_pure_reduction, modifies_requeue, modifies_that_traded,
            redundant_requests, toggles, ops_while_disabled, crossed_states, reloads, forks,
            fork_comparisons, drains, tie_insertions, tied_histories, states_checked,
            sweeps_bid_side_passive, sweeps_ask_side_passive, trades_after_reenable, offgrid_modifies,
            pre_tie_failures_left_to_owner
        );
        self.max_resting = self.max_resting.max(o.max_resting);
    }
}

/// Views recomputed from the list of orders alone (C02's oracle; no reference model involved).
pub fn recompute_views(orders: &[ROrder], tick: u32, levels: usize) -> Views {
    let act = |bid: bool| orders.iter().filter(move |o| o.status == ACTIVE && o.bid == bid);
    let best_bid = act(true).map(|o| o.price).max();
    let best_ask = act(false).map(|o| o.price).min();
    let bb = best_bid.unwrap_or(0);
    let ba = best_ask.unwrap_or(PMAX);
    let tot = |bid: bool| act(bid).map(|o| o.vol as u64).sum::<u64>() as u32;
    let at = |bid: bool, p: u32| -> (u32, u32) {
        let mut v = 0u64;
        let mut n = 0u32;
        for o in act(bid) {
            if o.price == p {
                v += o.vol as u64;
                n += 1;
            }
        }
        (v as u32, n)
    };
    let touch_b = if best_bid.is_some() { at(true, bb) } else { (0, 0) };
    let touch_a = if best_ask.is_some() { at(false, ba) } else { (0, 0) };
    let mut bl = Vec::with_capacity(levels);
    let mut al = Vec::with_capacity(levels);
    for i in 0..levels {
        let d = (i as u64) * (tick as u64);
        // a level outside the price range [0, 2^32-1] holds nothing
        bl.push(if best_bid.is_some() && d <= bb as u64 { at(true, bb - d as u32) } else { (0, 0) });
        al.push(if best_ask.is_some() && (ba as u64 + d) <= PMAX as u64 { at(false, ba + d as u32) } else { (0, 0) });
    }
    let mid = (bb as f64 + ba as f64) / 2.0;
    Views {
        bid_ask: (bb, ba),
        bid_vol: tot(true),
        ask_vol: tot(false),
        bid_best_vol: touch_b.0,
        ask_best_vol: touch_a.0,
        bid_best: touch_b,
        ask_best: touch_a,
        bid_levels: bl.clone(),
        ask_levels: al.clone(),
        l1: [bb, ba, tot(true), tot(false), touch_b.0, touch_a.0, touch_b.1, touch_a.1],
        l2_head: [bb, ba, tot(true), tot(false)],
        l2_bid: bl,
        l2_ask: al,
        mid: Some(mid.to_bits()),
    }
}

fn views_diff(a: &Views, b: &Views) -> String {
    let mut out = Vec::new();
    macro_rules! d { ($($f:ident),*) => { $( if a.$f != b.$f { out.push(format!("{}: expected {:?} observed {:?}", stringify!($f), a.$f, b.$f)); } )* } }
    d!(bid_ask, bid_vol, ask_vol, bid_best_vol, ask_best_vol, bid_best, ask_best, bid_levels, ask_levels, l1, l2_head, l2_bid, l2_ask);
    if a.mid != b.mid {
        out.push(format!(
            "mid: expected {:?} observed {:?}",
            a.mid.map(f64::from_bits),
            b.mid.map(f64::from_bits)
        ));
    }
    out.join("; ")
}

pub fn obs_diff(a: &Obs, b: &Obs) -> String {
    let mut out = Vec::new();
    if a.t != b.t {
        out.push(format!("t {} vs {}", a.t, b.t));
    }
    if a.trade_vol != b.trade_vol {
        out.push(format!("trade_vol {} vs {}", a.trade_vol, b.trade_vol));
    }
    if a.orders != b.orders {
        if a.orders.len() != b.orders.len() {
            out.push(format!("orders.len {} vs {}", a.orders.len(), b.orders.len()));
        }
        for (x, y) in a.orders.iter().zip(b.orders.iter()) {
            if x != y {
                out.push(format!("order {:?} vs {:?}", x, y));
                break;
            }
        }
    }
    if a.trades != b.trades {
        out.push(format!("trades differ (len {} vs {})", a.trades.len(), b.trades.len()));
        for (x, y) in a.trades.iter().zip(b.trades.iter()) {
            if x != y {
                out.push(format!("trade {:?} vs {:?}", x, y));
                break;
            }
        }
    }
    if a.views != b.views {
        out.push(format!("views: {}", views_diff(&a.views, &b.views)));
    }
    if a.queue != b.queue {
        out.push(format!("queue {:?} vs {:?}", a.queue, b.queue));
    }
    if a.hlevels != b.hlevels {
        out.push("occupied levels differ".to_string());
    }
    if a.trading != b.trading {
        out.push(format!("trading flag {:?} vs {:?}", a.trading, b.trading));
    }
    out.join("; ")
}

fn reload<B: RealBook>(b: &B, route: u8, scratch: &str) -> Result<B, String> {
    match route & 3 {
        0 => B::from_json(&b.to_json(false)),
        1 => B::from_json(&b.to_json(true)),
        r => {
            // the same path is written again and again (longer and shorter, pretty and compact
            // snapshots overwrite one another), as a user saving checkpoints to one file would
            let path = format!("{}/snap-{:?}.json", scratch, std::thread::current().id());
            b.save_file(&path, r == 3)?;
            B::load_file(&path)
        }
    }
}

pub struct Runner<B: RealBook> {
    pub cfg: Cfg,
    pub mons: u32,
    pub real: B,
    pub rf: RefBook,
    /// harness-side knowledge (never read back from bourse)
    pub trading: bool,
    pub ever_disabled: bool,
    pub is_market: Vec<bool>,
    pub reenabled_since_disable: bool,
    // ledger monitor
    seen_trades: Vec<RTrade>,
    acct: Vec<u32>,
    traded_since_reset: u64,
    // lifecycle monitor
    prev_orders: Vec<ROrder>,
    pub forks: Vec<B>,
    pub scratch: String,
    pub census: Census,
    /// the reference can no longer follow (off-grid modify was issued): M_REF is switched off
    pub ref_valid: bool,
    pub tie_policy: TiePolicy,
    pub first_tie_op: Option<usize>,
    pub stopped: bool,
    idx: usize,
}

/// Which histories a check owns with respect to clock discipline.
#[derive(Clone, Copy, PartialEq, Eq, Debug)]
pub enum TiePolicy {
    /// judge everything (C04, C12)
    Any,
    /// disciplined histories only: stop judging at the first tie insertion (C01-C03, C06, C07, C13)
    StopOnTie,
    /// tie histories only: failures before the first tie insertion belong to another property (C05)
    JudgeFromTie,
}

impl<B: RealBook> Runner<B> {
    pub fn new(cfg: &Cfg, mons: u32, scratch: &str) -> Self {
        let real = B::new(cfg.t0, cfg.tick, cfg.trading0);
        Runner {
            cfg: cfg.clone(),
            mons,
            real,
            rf: RefBook::new(cfg.t0, cfg.tick, cfg.trading0),
            trading: cfg.trading0,
            ever_disabled: !cfg.trading0,
            is_market: Vec::new(),
            reenabled_since_disable: false,
            seen_trades: Vec::new(),
            acct: Vec::new(),
            traded_since_reset: 0,
            prev_orders: Vec::new(),
            forks: Vec::new(),
            scratch: scratch.to_string(),
            census: Census::default(),
            ref_valid: true,
            tie_policy: TiePolicy::Any,
            first_tie_op: None,
            stopped: false,
            idx: 0,
        }
    }

    /// `step` with the ownership rule of the running check applied.
    pub fn step_owned(&mut self, op: &Op) -> Result<(), Failure> {
        if self.stopped {
            return Ok(());
        }
        match self.step(op) {
            Ok(()) => Ok(()),
            Err(f) => {
                if self.tie_policy == TiePolicy::JudgeFromTie && self.first_tie_op.is_none() {
                    // a failure on a still tie-free prefix is not C05's to report
                    self.stopped = true;
                    self.census.pre_tie_failures_left_to_owner += 1;
                    return Ok(());
                }
                Err(f)
            }
        }
    }

    fn on(&self, m: u32) -> bool {
        self.mons & m != 0
    }

    fn apply_real(b: &mut B, op: &Op, drain_vol: u32) -> Option<Result<usize, String>> {
        match op {
            Op::Advance(d) => {
                let t = b.time();
                b.set_time(t + d);
                None
            }
            Op::Create { bid, vol, trader, price } => Some(b.create(*bid, *vol, *trader, *price)),
            Op::CreatePlace { bid, vol, trader, price } => Some(b.create_place(*bid, *vol, *trader, *price)),
            Op::Place(id) => {
                b.place(*id);
                None
            }
            Op::Cancel(id) => {
                b.cancel(*id);
                None
            }
            Op::Modify { id, price, vol } => {
                b.modify(*id, *price, *vol);
                None
            }
            Op::EvNew(id) => {
                b.ev_new(*id);
                None
            }
            Op::EvCancel(id) => {
                b.ev_cancel(*id);
                None
            }
            Op::EvModify { id, price, vol } => {
                b.ev_modify(*id, *price, *vol);
                None
            }
            Op::SetTrading(on) => {
                b.set_trading(*on);
                None
            }
            Op::ResetTradeVol => {
                b.reset_trade_vol();
                None
            }
            Op::Drain { bid } => {
                if drain_vol > 0 {
                    Some(b.create_place(*bid, drain_vol, 999_999, None))
                } else {
                    None
                }
            }
            Op::Reload(_) | Op::Fork(_) => None,
        }
    }

    pub fn apply_real_pub(b: &mut B, op: &Op) {
        let _ = Self::apply_real(b, op, 0);
    }

    /// Apply one operation to the real book (and forks), the reference and all enabled monitors.
    pub fn step(&mut self, op: &Op) -> Result<(), Failure> {
        let i = self.idx;
        self.idx += 1;
        self.census.ops += 1;
        let tick = self.cfg.tick;
        let pre_orders = std::mem::take(&mut self.prev_orders);
        let pre_orders = if i == 0 { self.real.orders() } else { pre_orders };
        let t_call = self.real.time();
        if !self.trading {
            self.census.ops_while_disabled += 1;
        }

        // what the request is about, from the harness's own knowledge
        let subject: Option<usize> = match op {
            Op::Place(id) | Op::Cancel(id) | Op::EvNew(id) | Op::EvCancel(id) => Some(*id),
            Op::Modify { id, .. } | Op::EvModify { id, .. } => Some(*id),
            _ => None,
        };
        let pre_status = subject.map(|id| pre_orders[id].status);
        let is_place = matches!(op, Op::Place(_) | Op::EvNew(_));
        let is_cancel = matches!(op, Op::Cancel(_) | Op::EvCancel(_));
        let (is_modify, m_price, m_vol) = match op {
            Op::Modify { price, vol, .. } | Op::EvModify { price, vol, .. } => (true, *price, *vol),
            _ => (false, None, None),
        };
        let offgrid_modify = is_modify && m_price.map(|p| p % tick != 0).unwrap_or(false);
        if offgrid_modify {
            self.census.offgrid_modifies += 1;
            if pre_status == Some(ACTIVE) {
                // what an off-grid modify does is left open by C12: the reference cannot follow
                self.ref_valid = false;
            }
        }
        let redundant = (is_place && pre_status != Some(NEW))
            || (is_cancel && pre_status != Some(ACTIVE))
            || (is_modify && (pre_status != Some(ACTIVE) || (m_price.is_none() && m_vol.is_none())))
            || matches!(op, Op::Advance(_));

        // snapshots needed before the call
        let need_full_pre = (self.on(M_LIFE) && redundant)
            || (self.on(M_NOTRADE) && (matches!(op, Op::SetTrading(_)) || !self.trading))
            || (self.on(M_GRID) && matches!(op, Op::Create { .. } | Op::CreatePlace { .. }))
            || (self.on(M_MODIFY) && is_modify);
        let pre_obs = if need_full_pre { Some(self.real.obs()) } else { None };
        let pre_json = if self.on(M_JSON_NOOP) && redundant && !matches!(op, Op::Advance(_)) {
            Some(self.real.to_json(false))
        } else {
            None
        };

        let drain_vol = if let Op::Drain { bid } = op { self.rf.side_vol(!*bid).min(u32::MAX as u64) as u32 } else { 0 };

        // ---- the call into bourse (client boundary) ----
        let real = &mut self.real;
        let res = match catch(|| Self::apply_real(real, op, drain_vol)) {
            Ok(r) => r,
            Err(msg) => return fail(i, "abort", "panic_in_operation", format!("{:?} panicked: {}", op, msg)),
        };
        match op {
            Op::Reload(r) => {
                self.census.reloads += 1;
                match catch(|| reload(&self.real, *r, &self.scratch)) {
                    Ok(Ok(b)) => {
                        if self.on(M_RELOAD) {
                            let a = self.real.obs();
                            let c = b.obs();
                            if a != c {
                                return fail(i, "reload", "reload_differs", obs_diff(&a, &c));
                            }
                        }
                        self.real = b;
                    }
                    Ok(Err(e)) => return fail(i, "reload", "reload_error", e),
                    Err(e) => return fail(i, "reload", "reload_panic", e),
                }
            }
            Op::Fork(r) => {
                if self.on(M_RELOAD) {
                    self.census.forks += 1;
                    match catch(|| reload(&self.real, *r, &self.scratch)) {
                        Ok(Ok(b)) => {
                            let a = self.real.obs();
                            let c = b.obs();
                            self.census.fork_comparisons += 1;
                            if a != c {
                                return fail(i, "reload", "reload_differs", obs_diff(&a, &c));
                            }
                            if self.forks.len() >= 6 {
                                self.forks.remove(0);
                            }
                            self.forks.push(b);
                        }
                        Ok(Err(e)) => return fail(i, "reload", "reload_error", e),
                        Err(e) => return fail(i, "reload", "reload_panic", e),
                    }
                }
            }
            _ => {
                // forks receive the same operation
                for k in 0..self.forks.len() {
                    let f = &mut self.forks[k];
                    let fr = match catch(|| Self::apply_real(f, op, drain_vol)) {
                        Ok(r) => r,
                        Err(msg) => return fail(i, "reload", "fork_panic", format!("{:?} panicked on reloaded copy: {}", op, msg)),
                    };
                    if fr.as_ref().map(|r| r.is_ok()) != res.as_ref().map(|r| r.is_ok())
                        || fr.as_ref().and_then(|r| r.as_ref().ok()) != res.as_ref().and_then(|r| r.as_ref().ok())
                    {
                        return fail(i, "reload", "fork_result_differs", format!("{:?}: original {:?} copy {:?}", op, res, fr));
                    }
                }
            }
        }

        // ---- reference ----
        let mut ref_res: Option<Result<usize, ()>> = None;
        {
            let rf = &mut self.rf;
            match op {
                Op::Advance(d) => rf.set_time(rf.t + d),
                Op::Create { bid, vol, trader, price } => ref_res = Some(rf.create(*bid, *vol, *trader, *price)),
                Op::CreatePlace { bid, vol, trader, price } => {
                    let r = rf.create(*bid, *vol, *trader, *price);
                    if let Ok(id) = r {
                        rf.place(id);
                    }
                    ref_res = Some(r);
                }
                Op::Place(id) | Op::EvNew(id) => rf.place(*id),
                Op::Cancel(id) | Op::EvCancel(id) => rf.cancel(*id),
                Op::Modify { id, price, vol } | Op::EvModify { id, price, vol } => {
                    if !offgrid_modify {
                        rf.modify(*id, *price, *vol)
                    }
                }
                Op::SetTrading(on) => rf.set_trading(*on),
                Op::ResetTradeVol => rf.reset_traded(),
                Op::Drain { bid } => {
                    if drain_vol > 0 {
                        let r = rf.create(*bid, drain_vol, 999_999, None);
                        if let Ok(id) = r {
                            rf.place(id);
                        }
                        ref_res = Some(r);
                    }
                }
                Op::Reload(_) | Op::Fork(_) => {}
            }
        }
        if self.first_tie_op.is_none() && self.rf.tie_insertions > 0 {
            self.first_tie_op = Some(i);
        }
        if self.tie_policy == TiePolicy::StopOnTie && self.first_tie_op.is_some() {
            // from here on the history belongs to C05
            self.stopped = true;
            return Ok(());
        }
        // harness-side bookkeeping
        match op {
            Op::SetTrading(on) => {
                self.census.toggles += 1;
                if *on && !self.trading {
                    self.reenabled_since_disable = true;
                }
                self.trading = *on;
                if !*on {
                    self.ever_disabled = true;
                }
            }
            Op::Create { price, .. } | Op::CreatePlace { price, .. } => {
                if let Some(Ok(_)) = &res {
                    self.is_market.push(price.is_none());
                }
            }
            Op::Drain { .. } => {
                self.census.drains += 1;
                if let Some(Ok(_)) = &res {
                    self.is_market.push(true);
                }
            }
            _ => {}
        }

        // ---- observe ----
        let post_orders = self.real.orders();
        let t_now = self.real.time();
        let n_tr_before = self.seen_trades.len();
        let new_trades = self.real.trades_from(n_tr_before);

        // creation result: accepted iff on grid (C12), same as reference (C01)
        if let Some(r) = &res {
            let (price, is_creation) = match op {
                Op::Create { price, .. } | Op::CreatePlace { price, .. } => (*price, true),
                _ => (None, true),
            };
            if is_creation {
                self.census.creations += 1;
                let on_grid = price.map(|p| p % tick == 0).unwrap_or(true);
                if !on_grid {
                    self.census.rejected_creations += 1;
                }
                if self.on(M_GRID) || self.on(M_REF) {
                    if r.is_ok() != on_grid {
                        return fail(
                            i,
                            "grid",
                            if on_grid { "on_grid_creation_rejected" } else { "off_grid_creation_accepted" },
                            format!("{:?} tick {} -> {:?}", op, tick, r),
                        );
                    }
                }
                if let Ok(id) = r {
                    if *id != pre_orders.len() && (self.on(M_LIFE) || self.on(M_REF) || self.on(M_GRID)) {
                        return fail(i, "lifecycle", "id_not_dense", format!("{:?} returned id {} with {} orders before", op, id, pre_orders.len()));
                    }
                }
                if r.is_err() && self.on(M_GRID) {
                    let post = self.real.obs();
                    if Some(&post) != pre_obs.as_ref() {
                        return fail(i, "grid", "rejected_creation_left_trace", obs_diff(pre_obs.as_ref().unwrap(), &post));
                    }
                }
            }
        }

        // census of what happened (from the observed records)
        self.census.trades += new_trades.len() as u64;
        if !new_trades.is_empty() {
            let mut prices: Vec<u32> = new_trades.iter().map(|t| t.price).collect();
            prices.dedup();
            if prices.len() >= 2 {
                self.census.multi_level_sweeps += 1;
            }
            if new_trades[0].bid {
                self.census.sweeps_bid_side_passive += 1;
            } else {
                self.census.sweeps_ask_side_passive += 1;
            }
            if self.reenabled_since_disable {
                self.census.trades_after_reenable += new_trades.len() as u64;
            }
            for t in &new_trades {
                if t.passive < post_orders.len() && post_orders[t.passive].status == ACTIVE {
                    self.census.partial_fills_passive += 1;
                }
            }
        }
        if let Some(id) = subject {
            if id < post_orders.len() {
                let (a, b) = (pre_orders[id], post_orders[id]);
                if is_place && a.status == NEW {
                    self.census.placements += 1;
                }
                if is_cancel && a.status == ACTIVE && b.status == CANCELLED {
                    self.census.cancels_effective += 1;
                    if a.vol < a.start_vol {
                        if a.bid {
                            self.census.cancel_partially_filled_head_bid += 1;
                        } else {
                            self.census.cancel_partially_filled_head_ask += 1;
                        }
                    }
                }
                if is_modify && a.status == ACTIVE && !(m_price.is_none() && m_vol.is_none()) {
                    self.census.modifies_effective += 1;
                    if m_price.is_none() && m_vol.map(|v| v < a.vol).unwrap_or(false) {
                        self.census.modifies_pure_reduction += 1;
                    } else {
                        self.census.modifies_requeue += 1;
                    }
                    if !new_trades.is_empty() {
                        self.census.modifies_that_traded += 1;
                    }
                }
            }
        }
        if matches!(op, Op::CreatePlace { .. }) {
            if let Some(Ok(_)) = res {
                self.census.placements += 1;
            }
        }
        if redundant {
            self.census.redundant_requests += 1;
        }
        if let Some(o) = post_orders.last() {
            if post_orders.len() > pre_orders.len() || is_place {
                let o = if is_place { &post_orders[subject.unwrap()] } else { o };
                let market = self.is_market.get(o.id).copied().unwrap_or(false);
                if market && o.status == CANCELLED && o.end == t_now && pre_orders.get(o.id).map(|p| p.status == NEW).unwrap_or(true) {
                    self.census.market_remainder_discarded += 1;
                }
                if market && o.status == REJECTED && pre_orders.get(o.id).map(|p| p.status == NEW).unwrap_or(true) {
                    self.census.market_rejected += 1;
                }
            }
        }

        // ---- M_REF: records, trades, queue vs the reference engine (C01/C05/C06/C13) ----
        if self.on(M_REF) && self.ref_valid {
            if let (Some(r), Some(rr)) = (&res, &ref_res) {
                if r.is_ok() != rr.is_ok() || r.as_ref().ok() != rr.as_ref().ok() {
                    return fail(i, "reference", "creation_result_differs", format!("{:?}: expected {:?} observed {:?}", op, rr, r));
                }
            }
            if t_now != self.rf.t {
                return fail(i, "reference", "time_differs", format!("expected {} observed {}", self.rf.t, t_now));
            }
            if post_orders.len() != self.rf.orders.len() {
                return fail(i, "reference", "order_count_differs", format!("expected {} observed {}", self.rf.orders.len(), post_orders.len()));
            }
            for (e, o) in self.rf.orders.iter().zip(post_orders.iter()) {
                let mut e2 = *e;
                if e.status == NEW {
                    e2.arr = o.arr; // arrival time of an unplaced order is not specified
                }
                if e2 != *o {
                    return fail(i, "reference", "order_record_differs", format!("after {:?}: expected {:?} observed {:?}", op, e2, o));
                }
            }
            let exp_new = &self.rf.trades[n_tr_before.min(self.rf.trades.len())..];
            if exp_new != &new_trades[..] || self.rf.trades.len() != n_tr_before + new_trades.len() {
                return fail(
                    i,
                    "reference",
                    "trades_differ",
                    format!("after {:?}: expected new trades {:?} observed {:?}", op, exp_new, new_trades),
                );
            }
            if let Some((qb, qa)) = self.real.queue() {
                let (eb, ea) = (self.rf.queue(true), self.rf.queue(false));
                if qb != eb || qa != ea {
                    return fail(
                        i,
                        "reference",
                        "queue_order_differs",
                        format!("after {:?}: expected bids {:?} asks {:?} observed bids {:?} asks {:?}", op, eb, ea, qb, qa),
                    );
                }
            }
        }

        // ---- M_REACH (C05): every active order is reachable ----
        if self.on(M_REACH) {
            if let Some((qb, qa)) = self.real.queue() {
                for o in &post_orders {
                    if o.status == ACTIVE {
                        let q = if o.bid { &qb } else { &qa };
                        if !q.contains(&o.id) {
                            return fail(i, "reach", "active_order_not_in_queue", format!("after {:?}: order {:?} is Active but absent from its side's queue {:?}", op, o, q));
                        }
                    }
                }
                let n_act = post_orders.iter().filter(|o| o.status == ACTIVE).count();
                if qb.len() + qa.len() != n_act {
                    return fail(i, "reach", "queue_size_differs", format!("after {:?}: {} active orders but queues hold {}", op, n_act, qb.len() + qa.len()));
                }
            }
            if let Op::Drain { bid } = op {
                // after draining the side opposite to `bid`, no order of that side may still be Active
                if self.trading {
                    if let Some(o) = post_orders.iter().find(|o| o.status == ACTIVE && o.bid != *bid) {
                        return fail(i, "reach", "active_after_full_drain", format!("order {:?} still Active after a market order for the whole side", o));
                    }
                }
            }
        }

        // ---- M_VIEWS (C02) ----
        if self.on(M_VIEWS) {
            self.census.states_checked += 1;
            let exp = recompute_views(&post_orders, tick, B::LEVELS);
            let got = self.real.views();
            let n_rest = post_orders.iter().filter(|o| o.status == ACTIVE).count() as u64;
            self.census.max_resting = self.census.max_resting.max(n_rest);
            let crossed = exp.bid_vol > 0 && exp.ask_vol > 0 && exp.bid_ask.0 >= exp.bid_ask.1;
            if crossed {
                self.census.crossed_states += 1;
            }
            if got.mid.is_none() {
                return fail(
                    i,
                    "views",
                    if crossed { "mid_price_panic_crossed" } else { "mid_price_panic" },
                    format!("mid_price() panicked with bid/ask {:?}", got.bid_ask),
                );
            }
            if exp != got {
                let only_mid = {
                    let mut g2 = got.clone();
                    g2.mid = exp.mid;
                    g2 == exp
                };
                return fail(
                    i,
                    "views",
                    if only_mid && crossed { "mid_price_wrong_crossed" } else if only_mid { "mid_price_wrong" } else { "view_differs_from_orders" },
                    format!("after {:?}: {}", op, views_diff(&exp, &got)),
                );
            }
            // the views agree with one another
            let v = &got;
            let ok = v.bid_best_vol == v.bid_best.0
                && v.ask_best_vol == v.ask_best.0
                && v.bid_levels[0] == v.bid_best
                && v.ask_levels[0] == v.ask_best
                && v.l1 == [v.bid_ask.0, v.bid_ask.1, v.bid_vol, v.ask_vol, v.bid_best.0, v.ask_best.0, v.bid_best.1, v.ask_best.1]
                && v.l2_head == [v.bid_ask.0, v.bid_ask.1, v.bid_vol, v.ask_vol]
                && v.l2_bid == v.bid_levels
                && v.l2_ask == v.ask_levels;
            if !ok {
                return fail(i, "views", "views_disagree", format!("after {:?}: {:?}", op, v));
            }
            if crossed && !self.ever_disabled {
                return fail(i, "views", "crossed_book", format!("after {:?}: best bid {} >= best ask {} although trading was never disabled", op, exp.bid_ask.0, exp.bid_ask.1));
            }
            if let Some((hb, ha)) = self.real.hlevels() {
                // occupied levels kept by the side index must be exactly the occupied price levels
                for (bid, h) in [(true, hb), (false, ha)] {
                    let mut expl: Vec<(u32, u32, u32)> = Vec::new();
                    let mut ps: Vec<u32> = post_orders.iter().filter(|o| o.status == ACTIVE && o.bid == bid).map(|o| o.price).collect();
                    ps.sort();
                    ps.dedup();
                    if bid {
                        ps.reverse();
                    }
                    for p in ps {
                        let (mut v, mut n) = (0u64, 0u32);
                        for o in post_orders.iter().filter(|o| o.status == ACTIVE && o.bid == bid && o.price == p) {
                            v += o.vol as u64;
                            n += 1;
                        }
                        expl.push((p, v as u32, n));
                    }
                    let h2: Vec<(u32, u32, u32)> = h.into_iter().filter(|x| x.1 != 0 || x.2 != 0).collect();
                    if h2 != expl {
                        return fail(i, "views", "occupied_levels_differ", format!("after {:?}: side bid={} expected {:?} observed {:?}", op, bid, expl, h2));
                    }
                }
            }
        }

        // ---- M_LEDGER (C03) ----
        if self.on(M_LEDGER) {
            // records already in the log never change
            let all = self.real.trades();
            if all.len() < n_tr_before || all[..n_tr_before] != self.seen_trades[..] {
                return fail(i, "ledger", "log_prefix_changed", format!("after {:?}: an existing trade record changed or disappeared", op));
            }
            let may_trade = (is_place && pre_status == Some(NEW))
                || matches!(op, Op::CreatePlace { .. } | Op::Drain { .. })
                || (is_modify && pre_status == Some(ACTIVE));
            if !new_trades.is_empty() && !may_trade {
                return fail(i, "ledger", "trade_from_non_trading_request", format!("{:?} produced trades {:?}", op, new_trades));
            }
            // accounts for orders created by this call
            while self.acct.len() < post_orders.len() {
                let k = self.acct.len();
                let sv = match op {
                    Op::Create { vol, .. } | Op::CreatePlace { vol, .. } => *vol,
                    Op::Drain { .. } => drain_vol,
                    _ => return fail(i, "ledger", "order_appeared", format!("{:?} created order {}", op, k)),
                };
                self.acct.push(sv);
            }
            let agg = match op {
                Op::CreatePlace { .. } | Op::Drain { .. } => res.as_ref().and_then(|r| r.as_ref().ok()).copied(),
                _ => subject,
            };
            if is_modify && pre_status == Some(ACTIVE) {
                if let (Some(v), Some(id)) = (m_vol, subject) {
                    if !offgrid_modify || post_orders[id].price != pre_orders[id].price || post_orders[id].vol != pre_orders[id].vol {
                        self.acct[id] = v; // explicit volume modification, submitted by the harness
                    }
                }
            }
            for tr in &new_trades {
                if tr.t != t_call {
                    return fail(i, "ledger", "trade_time", format!("trade {:?} not stamped with the book time {}", tr, t_call));
                }
                if tr.vol == 0 {
                    return fail(i, "ledger", "zero_volume_trade", format!("{:?}", tr));
                }
                if Some(tr.active) != agg {
                    return fail(i, "ledger", "wrong_aggressor", format!("{:?}: trade {:?} names aggressor {} but the request was about {:?}", op, tr, tr.active, agg));
                }
                if tr.passive >= pre_orders.len() || tr.passive == tr.active {
                    return fail(i, "ledger", "bad_passive_id", format!("{:?}", tr));
                }
                let p = pre_orders[tr.passive];
                let a = post_orders[tr.active];
                if p.status != ACTIVE {
                    return fail(i, "ledger", "passive_not_resting", format!("trade {:?} against order {:?} which was not resting before the call", tr, p));
                }
                if p.bid == a.bid {
                    return fail(i, "ledger", "same_side_trade", format!("{:?}: aggressor {:?} passive {:?}", tr, a, p));
                }
                if tr.bid != p.bid || tr.price != p.price {
                    return fail(i, "ledger", "trade_not_at_passive_price_side", format!("trade {:?} passive {:?}", tr, p));
                }
                let admits = if a.bid { a.price >= tr.price } else { a.price <= tr.price };
                if !admits {
                    return fail(i, "ledger", "limit_does_not_admit_price", format!("trade {:?} aggressor {:?}", tr, a));
                }
                // conservation
                for id in [tr.active, tr.passive] {
                    if self.acct[id] < tr.vol {
                        return fail(i, "ledger", "overfill", format!("trade {:?} exceeds the remaining volume {} of order {}", tr, self.acct[id], id));
                    }
                    self.acct[id] -= tr.vol;
                }
                self.traded_since_reset += tr.vol as u64;
            }
            if matches!(op, Op::ResetTradeVol) {
                self.traded_since_reset = 0;
            }
            for o in &post_orders {
                if self.acct[o.id] != o.vol {
                    return fail(
                        i,
                        "ledger",
                        "volume_not_explained_by_trades",
                        format!("after {:?}: order {:?} should have remaining volume {} (submitted minus logged trades)", op, o, self.acct[o.id]),
                    );
                }
            }
            if self.real.trade_vol() as u64 != self.traded_since_reset & 0xFFFF_FFFF {
                return fail(i, "ledger", "cumulative_counter", format!("after {:?}: counter {} but logged volume since reset {}", op, self.real.trade_vol(), self.traded_since_reset));
            }
        }
        self.seen_trades.extend_from_slice(&new_trades);

        // ---- M_LIFE (C04) ----
        if self.on(M_LIFE) {
            let grew = post_orders.len() as i64 - pre_orders.len() as i64;
            let exp_grew = match (&res, op) {
                (Some(Ok(_)), _) => 1,
                _ => 0,
            };
            if grew != exp_grew {
                return fail(i, "lifecycle", "order_list_length", format!("after {:?}: {} -> {} orders", op, pre_orders.len(), post_orders.len()));
            }
            for (k, o) in post_orders.iter().enumerate() {
                if o.id != k {
                    return fail(i, "lifecycle", "id_not_dense", format!("order at index {} has id {}", k, o.id));
                }
                let market = self.is_market.get(k).copied().unwrap_or(false);
                if k >= pre_orders.len() {
                    // freshly created: either still New, or placed by the same call
                    let placed_by_call = matches!(op, Op::CreatePlace { .. } | Op::Drain { .. });
                    if !placed_by_call {
                        if o.status != NEW || o.end != UNSET {
                            return fail(i, "lifecycle", "created_not_new", format!("{:?} -> {:?}", op, o));
                        }
                        continue;
                    }
                    self.check_transition(i, op, None, o, market, t_call)?;
                    continue;
                }
                let p = &pre_orders[k];
                if p.id != o.id || p.bid != o.bid || p.trader != o.trader {
                    return fail(i, "lifecycle", "identity_changed", format!("{:?} -> {:?}", p, o));
                }
                if p == o {
                    continue;
                }
                if p.status >= FILLED {
                    return fail(i, "lifecycle", "terminal_order_changed", format!("after {:?}: {:?} -> {:?}", op, p, o));
                }
                self.check_transition(i, op, Some(p), o, market, t_call)?;
            }
            if redundant {
                let pre = pre_obs.as_ref().unwrap();
                let mut post = self.real.obs();
                if matches!(op, Op::Advance(_)) {
                    post.t = pre.t;
                }
                if *pre != post {
                    return fail(i, "lifecycle", "redundant_request_changed_state", format!("{:?} (subject status {:?}): {}", op, pre_status, obs_diff(pre, &post)));
                }
                if let Some(pj) = &pre_json {
                    let qj = self.real.to_json(false);
                    if *pj != qj {
                        return fail(i, "lifecycle", "redundant_request_changed_snapshot", format!("{:?}: JSON snapshot text differs", op));
                    }
                }
            }
        }

        // ---- M_MODIFY (C06 metamorphic) ----
        if self.on(M_MODIFY) && is_modify && !offgrid_modify {
            let id = subject.unwrap();
            let (a, b) = (pre_orders[id], post_orders[id]);
            if a.status == ACTIVE && !(m_price.is_none() && m_vol.is_none()) {
                let pure = m_price.is_none() && m_vol.map(|v| v < a.vol).unwrap_or(false);
                let pre = pre_obs.as_ref().unwrap();
                if pure {
                    let v = m_vol.unwrap();
                    let d = a.vol - v;
                    let mut exp_orders = pre_orders.clone();
                    exp_orders[id].vol = v;
                    if post_orders != exp_orders {
                        return fail(i, "modify", "pure_reduction_changed_more_than_volume", format!("{:?}: {:?} -> {:?}", op, a, b));
                    }
                    if !new_trades.is_empty() {
                        return fail(i, "modify", "pure_reduction_traded", format!("{:?}", new_trades));
                    }
                    let post = self.real.obs();
                    if post.queue != pre.queue {
                        return fail(i, "modify", "pure_reduction_lost_priority", format!("{:?}: queue {:?} -> {:?}", op, pre.queue, post.queue));
                    }
                    let (pv, qv) = (&pre.views, &post.views);
                    let counts = |v: &Views| (v.bid_best.1, v.ask_best.1, v.bid_levels.iter().map(|x| x.1).collect::<Vec<_>>(), v.ask_levels.iter().map(|x| x.1).collect::<Vec<_>>());
                    if pv.bid_ask != qv.bid_ask || counts(pv) != counts(qv) {
                        return fail(i, "modify", "pure_reduction_changed_prices_or_counts", format!("{:?}", op));
                    }
                    let (same_side_pre, same_side_post, other_pre, other_post) = if a.bid {
                        (pv.bid_vol, qv.bid_vol, (pv.ask_vol, &pv.ask_levels), (qv.ask_vol, &qv.ask_levels))
                    } else {
                        (pv.ask_vol, qv.ask_vol, (pv.bid_vol, &pv.bid_levels), (qv.bid_vol, &qv.bid_levels))
                    };
                    if same_side_pre.wrapping_sub(d) != same_side_post || other_pre != other_post {
                        return fail(i, "modify", "pure_reduction_published_volume", format!("{:?}: side volume {} -> {} (reduction {})", op, same_side_pre, same_side_post, d));
                    }
                } else {
                    if a.id != b.id || a.bid != b.bid || a.trader != b.trader || a.arr != b.arr || a.start_vol != b.start_vol {
                        return fail(i, "modify", "requeue_changed_identity_fields", format!("{:?}: {:?} -> {:?}", op, a, b));
                    }
                    let np = m_price.unwrap_or(a.price);
                    if b.price != np {
                        return fail(i, "modify", "requeue_wrong_price", format!("{:?}: {:?} -> {:?}", op, a, b));
                    }
                    let nv = m_vol.unwrap_or(a.vol);
                    let traded: u64 = new_trades.iter().filter(|t| t.active == id).map(|t| t.vol as u64).sum();
                    if b.vol as u64 + traded != nv as u64 {
                        return fail(i, "modify", "requeue_wrong_volume", format!("{:?}: new volume {} traded {} remaining {}", op, nv, traded, b.vol));
                    }
                    if !self.trading && !new_trades.is_empty() {
                        return fail(i, "modify", "requeue_traded_while_disabled", format!("{:?}", new_trades));
                    }
                    if b.status == ACTIVE {
                        if let Some((qb, qa)) = self.real.queue() {
                            let q = if b.bid { qb } else { qa };
                            // last among the orders at its price
                            let same: Vec<usize> = q.iter().copied().filter(|k| post_orders[*k].price == b.price).collect();
                            if same.last() != Some(&id) {
                                return fail(i, "modify", "requeue_not_at_back", format!("{:?}: queue at price {} is {:?}", op, b.price, same));
                            }
                        }
                    } else if b.status != FILLED {
                        return fail(i, "modify", "requeue_bad_status", format!("{:?}: {:?} -> {:?}", op, a, b));
                    }
                }
            }
        }

        // ---- M_GRID (C12) ----
        if self.on(M_GRID) {
            for o in &post_orders {
                let market = self.is_market.get(o.id).copied().unwrap_or(false);
                if !market && o.price % tick != 0 {
                    return fail(i, "grid", "off_grid_price_in_book", format!("after {:?} (tick {}): {:?}", op, tick, o));
                }
            }
            // published per-level data accounts for all resting volume within its range
            let v = self.real.views();
            let span = (B::LEVELS as u64 - 1) * tick as u64;
            for (bid, from_l2) in [(true, false), (false, false), (true, true), (false, true)] {
                // both publications of the per-level data: the level getters and the level-2 record
                let (best, levels) = match (bid, from_l2) {
                    (true, false) => (v.bid_ask.0, &v.bid_levels),
                    (false, false) => (v.bid_ask.1, &v.ask_levels),
                    (true, true) => (v.l2_head[0], &v.l2_bid),
                    (false, true) => (v.l2_head[1], &v.l2_ask),
                };
                let pubv: u64 = levels.iter().map(|x| x.0 as u64).sum();
                let pubn: u64 = levels.iter().map(|x| x.1 as u64).sum();
                let (mut rv, mut rn) = (0u64, 0u64);
                for o in post_orders.iter().filter(|o| o.status == ACTIVE && o.bid == bid) {
                    let inside = if bid { (o.price as u64) + span >= best as u64 && o.price <= best } else { (o.price as u64) <= best as u64 + span && o.price >= best };
                    if inside {
                        rv += o.vol as u64;
                        rn += 1;
                    }
                }
                if pubv != rv || pubn != rn {
                    return fail(i, "grid", "levels_do_not_account_for_resting_volume", format!("after {:?}: side bid={} ({}) published ({}, {}) resting in range ({}, {})", op, bid, if from_l2 { "level-2 record" } else { "level getter" }, pubv, pubn, rv, rn));
                }
            }
        }

        // ---- M_NOTRADE (C13) ----
        if self.on(M_NOTRADE) {
            let was_off = match op {
                Op::SetTrading(_) => false,
                _ => !self.trading,
            };
            if was_off && !new_trades.is_empty() {
                return fail(i, "notrade", "trade_while_disabled", format!("{:?} produced {:?} while trading was disabled", op, new_trades));
            }
            if let Op::SetTrading(_) = op {
                let pre = pre_obs.as_ref().unwrap();
                let mut post = self.real.obs();
                post.trading = pre.trading;
                if *pre != post {
                    return fail(i, "notrade", "toggle_changed_state", obs_diff(pre, &post));
                }
            }
            if was_off {
                // market orders placed while disabled are rejected without touching the book
                let placed: Option<usize> = match op {
                    Op::CreatePlace { .. } | Op::Drain { .. } => res.as_ref().and_then(|r| r.as_ref().ok()).copied(),
                    Op::Place(id) | Op::EvNew(id) if pre_status == Some(NEW) => Some(*id),
                    _ => None,
                };
                if let Some(id) = placed {
                    if self.is_market.get(id).copied().unwrap_or(false) {
                        let o = post_orders[id];
                        if o.status != REJECTED || o.end != t_call {
                            return fail(i, "notrade", "market_order_not_rejected", format!("{:?} while disabled -> {:?}", op, o));
                        }
                        let pre = pre_obs.as_ref().unwrap();
                        let post = self.real.obs();
                        if pre.views != post.views || pre.queue != post.queue || pre.trades != post.trades || pre.trade_vol != post.trade_vol {
                            return fail(i, "notrade", "rejected_market_order_touched_book", obs_diff(pre, &post));
                        }
                        for (p, q) in pre.orders.iter().zip(post.orders.iter()) {
                            if p.id != id && p != q {
                                return fail(i, "notrade", "rejected_market_order_touched_book", format!("{:?} -> {:?}", p, q));
                            }
                        }
                    } else {
                        // a limit order simply rests at its price
                        let o = post_orders[id];
                        if o.status != ACTIVE || o.vol != pre_orders.get(id).map(|p| p.vol).unwrap_or(o.vol) {
                            return fail(i, "notrade", "limit_order_did_not_rest_while_disabled", format!("{:?} -> {:?}", op, o));
                        }
                    }
                }
                if is_modify && pre_status == Some(ACTIVE) && !offgrid_modify {
                    let o = post_orders[subject.unwrap()];
                    if o.status != ACTIVE {
                        return fail(i, "notrade", "modified_order_did_not_rest_while_disabled", format!("{:?} -> {:?}", op, o));
                    }
                }
            }
        }

        // ---- M_RELOAD (C07): reloaded copies stay indistinguishable ----
        if self.on(M_RELOAD) && !self.forks.is_empty() {
            let a = self.real.obs();
            for f in &self.forks {
                let c = f.obs();
                self.census.fork_comparisons += 1;
                if a != c {
                    return fail(i, "reload", "copy_diverged", format!("after {:?}: {}", op, obs_diff(&a, &c)));
                }
            }
        }

        self.prev_orders = post_orders;
        Ok(())
    }

    fn check_transition(&self, i: usize, op: &Op, pre: Option<&ROrder>, o: &ROrder, market: bool, t_call: u64) -> Result<(), Failure> {
        let ps = pre.map(|p| p.status).unwrap_or(NEW);
        let ok = match (ps, o.status) {
            (a, b) if a == b => true,
            (NEW, ACTIVE) => !market,
            (NEW, FILLED) => true,
            (NEW, CANCELLED) => market,
            (NEW, REJECTED) => market && !self.trading_before(op),
            (ACTIVE, FILLED) | (ACTIVE, CANCELLED) => !market,
            _ => false,
        };
        if !ok {
            return fail(i, "lifecycle", "illegal_transition", format!("after {:?}: status {} -> {} (market={}) {:?}", op, ps, o.status, market, o));
        }
        if ps == NEW && o.status != NEW {
            if o.arr != t_call {
                return fail(i, "lifecycle", "arrival_time", format!("after {:?} at t={}: {:?}", op, t_call, o));
            }
            if market && self.trading_before(op) && o.status == REJECTED {
                return fail(i, "lifecycle", "market_rejected_while_trading", format!("{:?}", o));
            }
        } else if let Some(p) = pre {
            if p.arr != o.arr && ps != NEW {
                return fail(i, "lifecycle", "arrival_time_changed", format!("after {:?}: {:?} -> {:?}", op, p, o));
            }
        }
        let terminal = o.status >= FILLED;
        if terminal && ps < FILLED {
            if o.end != t_call {
                return fail(i, "lifecycle", "end_time", format!("after {:?} at t={}: {:?}", op, t_call, o));
            }
        } else if !terminal && o.end != UNSET {
            return fail(i, "lifecycle", "end_time_set_early", format!("after {:?}: {:?}", op, o));
        }
        Ok(())
    }

    fn trading_before(&self, op: &Op) -> bool {
        // self.trading was already updated for SetTrading ops, which never place orders
        let _ = op;
        self.trading
    }

    pub fn finish(&mut self) {
        self.census.histories += 1;
        self.census.tie_insertions += self.rf.tie_insertions;
        if self.rf.tie_insertions > 0 {
            self.census.tied_histories += 1;
        }
    }
}

/// Run a whole history through a fresh runner. Panics inside the harness itself propagate.
pub fn run_history<B: RealBook>(h: &History, mons: u32, policy: TiePolicy, scratch: &str, census: &mut Census) -> Result<(), Failure> {
    let mut r = Runner::<B>::new(&h.cfg, mons, scratch);
    r.tie_policy = policy;
    let mut out = Ok(());
    for op in &h.ops {
        if let Err(f) = r.step_owned(op) {
            out = Err(f);
            break;
        }
        if r.stopped {
            break;
        }
    }
    r.finish();
    census.merge(&r.census);
    out
}

/// Remove op `i`; if it was a successful creation, drop the operations that refer to the created
/// order and renumber later ids.
pub fn remove_op(h: &History, i: usize) -> History {
    let tick = h.cfg.tick;
    let creates = |op: &Op| -> bool {
        match op {
            Op::Create { price, .. } | Op::CreatePlace { price, .. } => price.map(|p| p % tick == 0).unwrap_or(true),
            _ => false,
        }
    };
    // id created by op i (if any): number of successful creations before it. Drain ops create ids
    // too, but they are always the tail of a history; dropping one keeps earlier ids intact.
    let mut created_before = 0usize;
    for op in &h.ops[..i] {
        if creates(op) || matches!(op, Op::Drain { .. }) {
            created_before += 1;
        }
    }
    let removed_id = if creates(&h.ops[i]) { Some(created_before) } else { None };
    let mut ops = Vec::with_capacity(h.ops.len());
    for (k, op) in h.ops.iter().enumerate() {
        if k == i {
            continue;
        }
        let fix = |id: usize| -> Option<usize> {
            match removed_id {
                Some(r) if k > i => {
                    if id == r {
                        None
                    } else if id > r {
                        Some(id - 1)
                    } else {
                        Some(id)
                    }
                }
                _ => Some(id),
            }
        };
        let new = match op {
            Op::Place(id) => fix(*id).map(Op::Place),
            Op::Cancel(id) => fix(*id).map(Op::Cancel),
            Op::EvNew(id) => fix(*id).map(Op::EvNew),
            Op::EvCancel(id) => fix(*id).map(Op::EvCancel),
            Op::Modify { id, price, vol } => fix(*id).map(|id| Op::Modify { id, price: *price, vol: *vol }),
            Op::EvModify { id, price, vol } => fix(*id).map(|id| Op::EvModify { id, price: *price, vol: *vol }),
            other => Some(other.clone()),
        };
        if let Some(n) = new {
            ops.push(n);
        }
    }
    History { cfg: h.cfg.clone(), ops }
}

/// Greedy delta-debugging: drop operations while `still_fails` holds.
pub fn shrink(h: &History, still_fails: &dyn Fn(&History) -> bool) -> History {
    let mut cur = h.clone();
    // chunked passes first, then single operations
    let mut chunk = (cur.ops.len() / 2).max(1);
    let mut budget = 4000usize;
    while chunk >= 1 && budget > 0 {
        let mut i = 0;
        let mut progressed = false;
        while i < cur.ops.len() && budget > 0 {
            let mut cand = cur.clone();
            let n = chunk.min(cand.ops.len() - i);
            for _ in 0..n {
                if i < cand.ops.len() {
                    cand = remove_op(&cand, i);
                }
            }
            budget -= 1;
            if cand.ops.len() < cur.ops.len() && still_fails(&cand) {
                cur = cand;
                progressed = true;
            } else {
                i += chunk;
            }
        }
        if chunk == 1 && !progressed {
            break;
        }
        if chunk > 1 {
            chunk /= 2;
        }
    }
    cur
}
