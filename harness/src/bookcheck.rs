//! Common driver of the book-level checks: shards bounded-exhaustive enumerations and seeded
//! random histories over worker threads, shrinks counter-examples, gathers the event census.

use crate::gen::{enumerate, exh_history, prefixes, ExhCfg, Profile, RndGen};
use crate::ops::*;
use crate::real::RealBook;
use crate::report::{Ctx, Violation};
use crate::util::{catch, Distinct, Sm};
use crate::with_levels;
use serde_json::{json, Value};
use std::sync::atomic::{AtomicBool, AtomicUsize, Ordering};
use std::sync::Mutex;

pub struct BookSpec {
    pub check: &'static str,
    pub mons: u32,
    pub policy: TiePolicy,
    pub exh: Vec<ExhCfg>,
    /// (profile, number of histories)
    pub rnd: Vec<(Profile, usize)>,
    /// which histories count as non-trivial for `distinct_nontrivial`
    pub nontrivial: fn(&Census) -> bool,
    pub nontrivial_rule: &'static str,
}

pub struct BookOutcome {
    pub census: Census,
    pub evaluations: u64,
    pub exh_sequences: u64,
    pub rnd_histories: u64,
    pub nontrivial_total: u64,
    pub distinct: Distinct,
    pub samples: Vec<Value>,
    pub violations: Vec<Violation>,
    pub exh_complete: bool,
}

fn run_dyn(h: &History, mons: u32, policy: TiePolicy, scratch: &str, census: &mut Census) -> Result<(), Failure> {
    fn go<B: RealBook>(h: &History, mons: u32, policy: TiePolicy, scratch: &str, census: &mut Census) -> Result<(), Failure> {
        run_history::<B>(h, mons, policy, scratch, census)
    }
    with_levels!(h.cfg.levels, go(h, mons, policy, scratch, census))
}

/// Run one history; a panic escaping the runner itself (harness bug or bourse panic outside a
/// guarded call) is reported as an abort failure at an unknown position.
pub fn run_guarded(h: &History, mons: u32, policy: TiePolicy, scratch: &str, census: &mut Census) -> Result<(), Failure> {
    match catch(|| run_dyn(h, mons, policy, scratch, census)) {
        Ok(r) => r,
        Err(msg) => Err(Failure { op_index: usize::MAX, monitor: "abort".into(), kind: "panic_outside_guard".into(), detail: msg }),
    }
}

pub fn replay_doc(check: &str, h: &History, mons: u32, policy: TiePolicy, f: &Failure) -> Value {
    json!({
        "kind": "book_history",
        "check": check,
        "mons": mons,
        "policy": format!("{:?}", policy),
        "history": h,
        "failure": f,
    })
}

pub fn policy_from_str(s: &str) -> TiePolicy {
    match s {
        "StopOnTie" => TiePolicy::StopOnTie,
        "JudgeFromTie" => TiePolicy::JudgeFromTie,
        _ => TiePolicy::Any,
    }
}

fn make_violation(prop: &str, check: &str, h: &History, mons: u32, policy: TiePolicy, f: &Failure, scratch: &str) -> Violation {
    // shrink: keep failures of the same class
    let kind = f.kind.clone();
    let monitor = f.monitor.clone();
    let still = |c: &History| -> bool {
        let mut cs = Census::default();
        match run_guarded(c, mons, policy, scratch, &mut cs) {
            Err(g) => g.kind == kind && g.monitor == monitor,
            Ok(()) => false,
        }
    };
    let small = shrink(h, &still);
    let mut cs = Census::default();
    let f2 = run_guarded(&small, mons, policy, scratch, &mut cs).err().unwrap_or_else(|| f.clone());
    Violation {
        signature: format!("{}:{}:{}", prop, f2.monitor, f2.kind),
        summary: format!("{} / {} at op {} of a {}-op history (tick {}, {} levels): {}", f2.monitor, f2.kind, f2.op_index, small.ops.len(), small.cfg.tick, small.cfg.levels, truncate(&f2.detail, 600)),
        replay: replay_doc(check, &small, mons, policy, &f2),
    }
}

pub fn truncate(s: &str, n: usize) -> String {
    if s.len() <= n {
        s.to_string()
    } else {
        let mut e = n;
        while !s.is_char_boundary(e) {
            e -= 1;
        }
        format!("{}…", &s[..e])
    }
}

enum Task {
    Exh { cfg_idx: usize, prefix: Vec<(usize, usize)> },
    Rnd { prof_idx: usize, batch: usize, count: usize },
}

pub fn run_book_spec(ctx: &Ctx, spec: &BookSpec) -> BookOutcome {
    let mut tasks: Vec<Task> = Vec::new();
    for (ci, c) in spec.exh.iter().enumerate() {
        let d = if c.depth >= 5 { 2 } else { 1 };
        for p in prefixes(c, d) {
            tasks.push(Task::Exh { cfg_idx: ci, prefix: p });
        }
    }
    const BATCH: usize = 25;
    for (pi, (_, n)) in spec.rnd.iter().enumerate() {
        let mut left = *n;
        let mut b = 0;
        while left > 0 {
            let c = left.min(BATCH);
            tasks.push(Task::Rnd { prof_idx: pi, batch: b, count: c });
            left -= c;
            b += 1;
        }
    }
    // interleave deterministically so that all threads see both kinds of work
    let mut order: Vec<usize> = (0..tasks.len()).collect();
    let mut sh = Sm::derive(ctx.seed, 0x5eed);
    for i in (1..order.len()).rev() {
        let j = sh.below(i as u64 + 1) as usize;
        order.swap(i, j);
    }
    let next = AtomicUsize::new(0);
    let stop = AtomicBool::new(false);
    let n_viol = AtomicUsize::new(0);
    let merged: Mutex<Option<BookOutcome>> = Mutex::new(None);
    let threads = ctx.threads.max(1);
    let cap_total: usize = 6_000_000;

    std::thread::scope(|s| {
        for _ in 0..threads {
            s.spawn(|| {
                crate::util::install_quiet_panic_hook();
                let mut out = BookOutcome {
                    census: Census::default(),
                    evaluations: 0,
                    exh_sequences: 0,
                    rnd_histories: 0,
                    nontrivial_total: 0,
                    distinct: Distinct::new(cap_total / threads),
                    samples: Vec::new(),
                    violations: Vec::new(),
                    exh_complete: true,
                };
                loop {
                    let k = next.fetch_add(1, Ordering::Relaxed);
                    if k >= order.len() {
                        break;
                    }
                    if stop.load(Ordering::Relaxed) {
                        out.exh_complete = false;
                        break;
                    }
                    let mut judge = |h: History, out: &mut BookOutcome, is_exh: bool| {
                        let mut cs = Census::default();
                        let r = run_guarded(&h, spec.mons, spec.policy, &ctx.scratch, &mut cs);
                        out.evaluations += 1;
                        if is_exh {
                            out.exh_sequences += 1;
                        } else {
                            out.rnd_histories += 1;
                        }
                        if (spec.nontrivial)(&cs) {
                            out.nontrivial_total += 1;
                            out.distinct.add(h.hash());
                            if out.samples.len() < 1 && (out.evaluations % 97 == 3 || !is_exh) {
                                out.samples.push(json!({"source": if is_exh {"exhaustive"} else {"random"}, "history": h}));
                            }
                        }
                        out.census.merge(&cs);
                        if let Err(f) = r {
                            if n_viol.fetch_add(1, Ordering::Relaxed) < 6 {
                                out.violations.push(make_violation(&ctx.prop, spec.check, &h, spec.mons, spec.policy, &f, &ctx.scratch));
                            }
                            if n_viol.load(Ordering::Relaxed) >= 6 {
                                stop.store(true, Ordering::Relaxed);
                            }
                        }
                    };
                    match &tasks[order[k]] {
                        Task::Exh { cfg_idx, prefix } => {
                            let c = &spec.exh[*cfg_idx];
                            let mut leaf = |ops: &[Op]| {
                                if stop.load(Ordering::Relaxed) {
                                    out.exh_complete = false;
                                    return;
                                }
                                judge(exh_history(c, ops), &mut out, true);
                            };
                            enumerate(c, prefix, &mut leaf);
                        }
                        Task::Rnd { prof_idx, batch, count } => {
                            let (prof, _) = &spec.rnd[*prof_idx];
                            let rng = Sm::derive(ctx.seed, ((*prof_idx as u64) << 40) ^ (*batch as u64) ^ 0xB00C);
                            let mut g = RndGen::new(rng, prof.clone());
                            for _ in 0..*count {
                                if stop.load(Ordering::Relaxed) {
                                    break;
                                }
                                judge(g.history(), &mut out, false);
                            }
                        }
                    }
                }
                let mut m = merged.lock().unwrap();
                match m.as_mut() {
                    None => *m = Some(out),
                    Some(acc) => {
                        acc.census.merge(&out.census);
                        acc.evaluations += out.evaluations;
                        acc.exh_sequences += out.exh_sequences;
                        acc.rnd_histories += out.rnd_histories;
                        acc.nontrivial_total += out.nontrivial_total;
                        let cap = acc.distinct.len() + out.distinct.len();
                        let mut d = Distinct::new(cap.max(cap_total));
                        std::mem::swap(&mut d, &mut acc.distinct);
                        let mut nd = Distinct::new(cap_total.max(cap));
                        nd.merge(d);
                        nd.merge(out.distinct);
                        acc.distinct = nd;
                        if acc.samples.len() < 3 {
                            acc.samples.extend(out.samples);
                        }
                        acc.violations.extend(out.violations);
                        acc.exh_complete &= out.exh_complete;
                    }
                }
            });
        }
    });
    merged.into_inner().unwrap().unwrap()
}

pub fn exh_summary(spec: &BookSpec) -> Vec<Value> {
    spec.exh
        .iter()
        .map(|c| {
            json!({
                "depth": c.depth, "advances": c.advances, "modifies": c.modifies, "toggle": c.toggle,
                "redundant_place": c.redundant_place, "creates_unplaced": c.creates, "t0": c.t0, "prices": c.prices, "vols": c.vols, "tick": c.tick,
                "levels": c.levels, "sequences": c.count_sequences().to_string(),
            })
        })
        .collect()
}

pub fn book_coverage(spec: &BookSpec, out: &BookOutcome, extra_rule: &str) -> Value {
    json!({
        "evaluations": out.evaluations,
        "distinct_nontrivial": out.distinct.len(),
        "distinct_count_is_lower_bound": out.distinct.saturated,
        "nontrivial_total": out.nontrivial_total,
        "rule": format!("cases = complete operation histories (bounded-exhaustive sequences over the small alphabet listed under 'exhaustive', plus seeded random histories over wide alphabets), each ended by a drain probe; distinct = distinct 64-bit hash of the whole history; non-trivial = {}. {}", spec.nontrivial_rule, extra_rule),
        "samples": out.samples,
        "exhaustive": !spec.exh.is_empty() && out.exh_complete && spec.rnd.is_empty(),
        "exhaustive_part_complete": out.exh_complete,
        "exhaustive_sequences": out.exh_sequences,
        "random_histories": out.rnd_histories,
        "exhaustive_alphabets": exh_summary(spec),
        "census": out.census,
    })
}
