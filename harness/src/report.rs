//! Run context: tiers, seeds, evidence files, violations, known findings, exit codes.

use serde::{Deserialize, Serialize};
use serde_json::{json, Value};
use std::time::Instant;

#[derive(Clone, Copy, PartialEq, Eq, Debug)]
pub enum Tier {
    Quick,
    Thorough,
}

impl Tier {
    pub fn name(&self) -> &'static str {
        match self {
            Tier::Quick => "quick",
            Tier::Thorough => "thorough",
        }
    }
    pub fn pick<T>(&self, q: T, t: T) -> T {
        match self {
            Tier::Quick => q,
            Tier::Thorough => t,
        }
    }
}

#[derive(Clone, Debug, Serialize, Deserialize)]
pub struct KnownFinding {
    pub property: String,
    pub status: String, // "open" | "fixed"
    pub signature: String,
    #[serde(default)]
    pub commit: Option<String>,
    pub summary: String,
}

#[derive(Clone, Debug, Default, Serialize, Deserialize)]
pub struct KnownFindings {
    pub findings: Vec<KnownFinding>,
}

#[derive(Clone, Debug)]
pub struct Violation {
    /// stable identification of *what* fails (monitor, failure class, call site / input class)
    pub signature: String,
    pub summary: String,
    /// self-contained replay document
    pub replay: Value,
}

/// "strict": overflow checks and debug assertions compiled into bourse; "plain": the ordinary release profile.
pub fn build_profile() -> &'static str {
    if cfg!(debug_assertions) {
        "strict"
    } else {
        "plain"
    }
}

pub struct Ctx {
    pub prop: String,
    pub tier: Tier,
    pub seed: u64,
    pub verif_dir: String,
    pub scratch: String,
    pub threads: usize,
    pub start: Instant,
    pub known: Vec<KnownFinding>,
    pub hooks: bool,
}

impl Ctx {
    pub fn new(prop: &str, tier: Tier, seed: u64) -> Self {
        let verif_dir = std::env::var("BVMON_VERIF_DIR").unwrap_or_else(|_| "/verif".to_string());
        let scratch = std::env::var("BVMON_SCRATCH").unwrap_or_else(|_| format!("{}/target/scratch", verif_dir));
        let scratch = format!("{}/{}-{}", scratch, prop, std::process::id());
        std::fs::create_dir_all(&scratch).ok();
        let threads = std::env::var("BVMON_THREADS")
            .ok()
            .and_then(|s| s.parse().ok())
            .unwrap_or_else(|| std::thread::available_parallelism().map(|n| n.get()).unwrap_or(4));
        let known: Vec<KnownFinding> = std::fs::read_to_string(format!("{}/known_findings.json", verif_dir))
            .ok()
            .and_then(|s| serde_json::from_str::<KnownFindings>(&s).ok())
            .map(|k| k.findings)
            .unwrap_or_default();
        Ctx { prop: prop.to_string(), tier, seed, verif_dir, scratch, threads, start: Instant::now(), known, hooks: cfg!(feature = "hooks") }
    }

    pub fn elapsed(&self) -> f64 {
        self.start.elapsed().as_secs_f64()
    }

    /// Write evidence, print verdict lines, return the process exit code.
    pub fn finish(&self, level: &str, mut coverage: Value, assumptions: Vec<String>, violations: Vec<Violation>, inconclusive: Option<String>) -> i32 {
        let mut unlisted = 0;
        let mut seen_sig: Vec<String> = Vec::new();
        let mut lines: Vec<String> = Vec::new();
        let out_dir = std::env::var("BVMON_OUT_DIR").unwrap_or_else(|_| self.verif_dir.clone());
        let replay_dir = format!("{}/replays", out_dir);
        for v in &violations {
            if seen_sig.contains(&v.signature) {
                continue;
            }
            seen_sig.push(v.signature.clone());
            let listed = self
                .known
                .iter()
                .any(|k| k.property == self.prop && k.status == "open" && k.signature == v.signature);
            if listed {
                lines.push(format!("KNOWN-FINDING: property={} {} [{}]", self.prop, v.summary.replace('\n', " "), v.signature));
            } else {
                unlisted += 1;
                std::fs::create_dir_all(&replay_dir).ok();
                let tag = if build_profile() == "plain" { "plain-" } else { "" };
                let path = format!("{}/{}-{}-{}-{}{}.json", replay_dir, self.prop, self.tier.name(), self.seed, tag, unlisted);
                let mut doc = v.replay.clone();
                if let Some(o) = doc.as_object_mut() {
                    o.insert("property".into(), json!(self.prop));
                    o.insert("signature".into(), json!(v.signature));
                    o.insert("build_profile".into(), json!(build_profile()));
                    o.insert("summary".into(), json!(v.summary));
                }
                std::fs::write(&path, serde_json::to_string_pretty(&doc).unwrap()).ok();
                lines.push(format!("VIOLATION property={} replay={}", self.prop, path));
                lines.push(format!("  what: {} [{}]", v.summary.replace('\n', " "), v.signature));
            }
        }
        if let Some(o) = coverage.as_object_mut() {
            o.insert("hooks".into(), json!(self.hooks));
            o.insert("build_profile".into(), json!(build_profile()));
            o.insert("threads".into(), json!(self.threads));
            o.insert("violation_signatures".into(), json!(seen_sig));
            if let Some(r) = &inconclusive {
                o.insert("inconclusive".into(), json!(r));
            }
        }
        let ev = json!({
            "property_id": self.prop,
            "tier": self.tier.name(),
            "seed": self.seed,
            "level": level,
            "coverage": coverage,
            "assumptions": assumptions,
            "wall_s": (self.elapsed() * 1000.0).round() / 1000.0,
            "violations": unlisted,
        });
        let ev_dir = format!("{}/evidence", out_dir);
        std::fs::create_dir_all(&ev_dir).ok();
        let ev_path = std::env::var("BVMON_EVIDENCE").unwrap_or_else(|_| format!("{}/{}.json", ev_dir, self.prop));
        std::fs::write(&ev_path, serde_json::to_string_pretty(&ev).unwrap()).expect("write evidence");
        for l in &lines {
            println!("{}", l);
        }
        std::fs::remove_dir_all(&self.scratch).ok();
        if unlisted > 0 {
            return 1;
        }
        if let Some(r) = inconclusive {
            println!("INCONCLUSIVE property={} reason={}", self.prop, r);
            return 2;
        }
        println!(
            "OK property={} tier={} seed={} profile={} wall_s={:.1} evaluations={} distinct_nontrivial={}",
            self.prop,
            self.tier.name(),
            self.seed,
            build_profile(),
            self.elapsed(),
            ev["coverage"]["evaluations"],
            ev["coverage"]["distinct_nontrivial"]
        );
        0
    }
}

/// Check event floors: every (name, observed, minimum) must be reached, else the run is inconclusive.
pub fn floors(items: &[(&str, u64, u64)]) -> Option<String> {
    let missing: Vec<String> = items.iter().filter(|(_, got, min)| got < min).map(|(n, got, min)| format!("{}={}<{}", n, got, min)).collect();
    if missing.is_empty() {
        None
    } else {
        Some(format!("event floors not reached: {}", missing.join(",")))
    }
}
