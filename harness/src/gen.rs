//! Workload generators at book level: G-rnd (seeded random histories over wide alphabets) and
//! G-exh (bounded-exhaustive enumeration over a small alphabet).

use crate::model::*;
use crate::ops::{Cfg, History, Op};
use crate::real::LEVEL_CHOICES;
use crate::util::Sm;

#[derive(Clone, Debug)]
pub struct Profile {
    pub ops: (usize, usize),
    pub w_create: u32,
    pub w_place: u32,
    pub w_create_place: u32,
    pub w_cancel: u32,
    pub w_modify: u32,
    pub w_toggle: u32,
    pub w_reset: u32,
    pub w_reload: u32,
    pub w_fork: u32,
    pub w_advance: u32,
    pub p_event: f64,
    pub p_market: f64,
    /// probability that a cancel/modify/place targets *any* id instead of one in the useful status
    pub p_any_target: f64,
    /// tie mode: probability of NOT advancing the clock before an operation that may queue
    pub p_tie: f64,
    pub p_offgrid_create: f64,
    pub p_offgrid_modify: f64,
    pub p_large: f64,
    pub p_start_disabled: f64,
    pub levels: &'static [usize],
    pub max_tick: u32,
    /// level count of the book the history will be run on, when the caller fixes it (coarse ticks depend on it)
    pub levels_override: Option<usize>,
    pub drain: bool,
    /// C12 only: bids may be priced 0 (a multiple of every tick) so that the level walk reaches the bottom of the price range
    pub zero_bids: bool,
}

impl Profile {
    pub fn base() -> Self {
        Profile {
            ops: (100, 300),
            w_create: 6,
            w_place: 8,
            w_create_place: 40,
            w_cancel: 14,
            w_modify: 0,
            w_toggle: 0,
            w_reset: 0,
            w_reload: 0,
            w_fork: 0,
            w_advance: 8,
            p_event: 0.25,
            p_market: 0.15,
            p_any_target: 0.15,
            p_tie: 0.0,
            p_offgrid_create: 0.0,
            p_offgrid_modify: 0.0,
            p_large: 0.03,
            p_start_disabled: 0.0,
            levels: &LEVEL_CHOICES,
            max_tick: 10,
            levels_override: None,
            drain: true,
            zero_bids: false,
        }
    }
    /// C01: create / place / create-and-place / cancel / process-event / set-time only
    pub fn c01() -> Self {
        Self::base()
    }
    pub fn full() -> Self {
        let mut p = Self::base();
        p.w_modify = 22;
        p.w_toggle = 3;
        p.w_reset = 1;
        p.w_reload = 1;
        p.p_start_disabled = 0.1;
        p
    }
}

pub struct RndGen {
    pub rng: Sm,
    pub prof: Profile,
}

struct Band {
    tick: u32,
    center_k: u64, // center price = center_k * tick
    half: u64,     // half width in ticks
    max_k: u64,    // largest k with k*tick < PMAX
    /// mirror mode (ticks dividing 2^32-1 only): half of the prices are reflected to 2^32-1 - p, which is again a
    /// valid grid price; books then hold orders at p and at its mirror image on the *same* side, which is where a
    /// mix-up between real prices and inverted bid keys would show
    mirror: bool,
}

impl Band {
    fn price(&self, rng: &mut Sm) -> u32 {
        let lo = self.center_k.saturating_sub(self.half).max(1);
        let hi = (self.center_k + self.half).min(self.max_k);
        let k = rng.range(lo, hi.max(lo));
        let p = (k * self.tick as u64) as u32;
        if self.mirror && rng.chance(0.5) {
            PMAX - p
        } else {
            p
        }
    }
}

impl RndGen {
    pub fn new(rng: Sm, prof: Profile) -> Self {
        RndGen { rng, prof }
    }

    fn vol(rng: &mut Sm, large: bool) -> u32 {
        if large {
            // up to 3 * 2^30: a single order may exceed 2^31 (the generator keeps every sum < 2^32)
            return if rng.chance(0.3) { rng.range(1 << 30, 3 << 30) as u32 } else { rng.range(1 << 27, 1 << 28) as u32 };
        }
        // special values: powers of two and their neighbours, byte / 16-bit boundaries
        if rng.chance(0.04) {
            let k = rng.range(1, 20);
            let base = 1u32 << k;
            return (base as i64 + rng.range(0, 2) as i64 - 1).max(1) as u32;
        }
        match rng.below(10) {
            0..=5 => rng.range(1, 10) as u32,
            6..=8 => rng.range(1, 1000) as u32,
            _ => rng.range(1, 100_000) as u32,
        }
    }

    pub fn history(&mut self) -> History {
        let p = self.prof.clone();
        let rng = &mut self.rng;
        let picked = *rng.pick(p.levels);
        let levels = p.levels_override.unwrap_or(picked);
        // coarse grids (3% of the histories): a tick so large that the whole price range holds only about as many grid
        // prices as the book publishes levels - the largest ticks for which the level walk (LEVELS-1)*tick still fits
        // into the price type; a third of them powers of two
        let coarse = rng.chance(0.03);
        let tick = if coarse {
            let l = levels.max(2) as u64;
            let hi = ((PMAX as u64) / (l - 1)).min((PMAX as u64 - 1) / 2);
            let lo = ((PMAX as u64 + 1) / (l + 3)).max(1 << 20).min(hi);
            let pow2 = 1u64 << (63 - hi.leading_zeros() as u64);
            if rng.chance(0.33) && pow2 >= lo {
                pow2 as u32
            } else {
                rng.range(lo, hi) as u32
            }
        } else {
            rng.range(1, p.max_tick as u64) as u32
        };
        let t0 = if rng.chance(0.2) {
            rng.below(1 << 40)
        } else if rng.chance(0.25) {
            0
        } else if rng.chance(0.06) {
            // around the 31/32/53/62-bit boundaries of the clock
            (1u64 << *rng.pick(&[31u32, 32, 53, 62])) - rng.below(4)
        } else {
            rng.below(1000)
        };
        let trading0 = !rng.chance(p.p_start_disabled);
        let cfg = Cfg { tick, levels, t0, trading0 };
        let max_k = ((PMAX as u64) - 1) / tick as u64; // k*tick <= PMAX-1 < PMAX
        let mode = rng.below(20);
        let mode = if p.zero_bids && rng.chance(0.3) { 0 } else { mode };
        let center_k = match mode {
            _ if coarse => rng.range(1, max_k.max(1)),
            0 => 1 + rng.below(6),               // just above the lowest grid price
            1 => max_k - rng.below(6),           // just below the largest grid price
            2 => {
                // prices around a power of two (the price key just below / above a 2^j boundary)
                let j = rng.range(8, 31);
                ((1u64 << j) / tick as u64).clamp(3, max_k - 3)
            }
            _ => rng.range(50, 100_000),
        };
        let mirror = (PMAX as u64) % (tick as u64) == 0 && rng.chance(0.12);
        let mut band = Band { tick, center_k, half: if mirror { rng.range(0, 2) } else if coarse { rng.range(1, max_k.max(1)) } else { rng.range(1, 20) }, max_k, mirror };
        let large_hist = rng.chance(p.p_large);
        let n_ops = rng.range(p.ops.0 as u64, p.ops.1 as u64) as usize;

        let mut m = RefBook::new(t0, tick, trading0);
        let mut ops: Vec<Op> = Vec::with_capacity(n_ops + 8);
        let mut n_large = 0u32;
        let total_w = p.w_create + p.w_place + p.w_create_place + p.w_cancel + p.w_modify + p.w_toggle + p.w_reset + p.w_reload + p.w_fork + p.w_advance;

        // apply to the generator's own model so that it knows which ids exist and what rests
        fn model_apply(m: &mut RefBook, op: &Op) {
            match op {
                Op::Advance(d) => m.set_time(m.t + d),
                Op::Create { bid, vol, trader, price } => {
                    let _ = m.create(*bid, *vol, *trader, *price);
                }
                Op::CreatePlace { bid, vol, trader, price } => {
                    if let Ok(id) = m.create(*bid, *vol, *trader, *price) {
                        m.place(id);
                    }
                }
                Op::Place(id) | Op::EvNew(id) => m.place(*id),
                Op::Cancel(id) | Op::EvCancel(id) => m.cancel(*id),
                Op::Modify { id, price, vol } | Op::EvModify { id, price, vol } => {
                    if price.map(|p| p % m.tick == 0).unwrap_or(true) {
                        m.modify(*id, *price, *vol)
                    }
                }
                Op::SetTrading(on) => m.set_trading(*on),
                Op::ResetTradeVol => m.reset_traded(),
                _ => {}
            }
        }

        // deep-queue prologue (1.5% of the histories): several hundred small orders at two adjacent non-crossing
        // prices, one clock tick apart, so that single levels hold more than 256 orders before the random part starts
        if rng.chance(0.015) && !band.mirror && band.center_k > 2 && band.center_k + 2 < max_k {
            let n_build = rng.range(270, 640);
            let side_bias = rng.below(3); // 0 both sides, 1 bids only, 2 asks only
            for i in 0..n_build {
                let bid = match side_bias { 1 => true, 2 => false, _ => i % 2 == 0 };
                let k = if bid { band.center_k - 1 } else { band.center_k + 1 };
                let a = Op::Advance(1);
                model_apply(&mut m, &a);
                ops.push(a);
                let op = Op::CreatePlace { bid, vol: rng.range(1, 4) as u32, trader: rng.below(50) as u32, price: Some((k * tick as u64) as u32) };
                model_apply(&mut m, &op);
                ops.push(op);
            }
        }
        let n_ops = n_ops + ops.len();
        while ops.len() < n_ops {
            if rng.chance(0.01) {
                // drift the band
                let d = rng.range(0, 6);
                band.center_k = if rng.chance(0.5) { band.center_k.saturating_sub(d).max(1) } else { (band.center_k + d).min(max_k) };
            }
            let mut w = rng.below(total_w as u64) as u32;
            let mut pick = |x: u32| -> bool {
                if w < x {
                    w = u32::MAX;
                    true
                } else {
                    if w != u32::MAX {
                        w -= x;
                    }
                    false
                }
            };
            let ev = rng.chance(p.p_event);
            // headroom so that per-side resting volume and the cumulative counter stay < 2^32
            let head = |m: &RefBook, bid: bool| -> u64 { (PMAX as u64 - 1).saturating_sub(m.side_vol(bid)) };
            let mut queue_target: Option<(bool, u32)> = None;
            let mut new_ops: Vec<Op> = Vec::new();

            if pick(p.w_create) || false {
                let bid = rng.chance(0.5);
                let market = rng.chance(p.p_market);
                let large = large_hist && n_large < 6 && rng.chance(0.3);
                let vol = Self::vol(rng, large);
                if large {
                    n_large += 1;
                }
                let price = if market {
                    None
                } else if rng.chance(p.p_offgrid_create) {
                    Some(offgrid_price(rng, tick, &band))
                } else {
                    Some(band.price(rng))
                };
                let trader = if rng.chance(0.05) { rng.next() as u32 } else if rng.chance(0.02) { *rng.pick(&[0u32, 255, 256, 65535, 65536, 1 << 31, u32::MAX]) } else { rng.below(50) as u32 };
                new_ops.push(Op::Create { bid, vol, trader, price });
            } else if pick(p.w_place) {
                let news: Vec<usize> = m.orders.iter().filter(|o| o.status == NEW).map(|o| o.id).collect();
                let id = if !news.is_empty() && !rng.chance(p.p_any_target) {
                    Some(*rng.pick(&news))
                } else if !m.orders.is_empty() {
                    Some(rng.below(m.orders.len() as u64) as usize)
                } else {
                    None
                };
                if let Some(id) = id {
                    let o = m.orders[id];
                    if o.status == NEW && !m.is_market[id] {
                        queue_target = Some((o.bid, o.price));
                    }
                    new_ops.push(if ev { Op::EvNew(id) } else { Op::Place(id) });
                }
            } else if pick(p.w_create_place) {
                let bid = rng.chance(0.5);
                let market = rng.chance(p.p_market);
                let large = large_hist && n_large < 6 && rng.chance(0.3);
                let vol = Self::vol(rng, large);
                if large {
                    n_large += 1;
                }
                let price = if market {
                    None
                } else if rng.chance(p.p_offgrid_create) {
                    Some(offgrid_price(rng, tick, &band))
                } else {
                    // bias towards crossing / joining the touch so that trades and deep queues happen
                    let r = rng.below(10);
                    let (bb, ba) = (m.best_bid(), m.best_ask());
                    match (r, bid, bb, ba) {
                        (0..=2, true, _, Some(a)) => Some(a),
                        (0..=2, false, Some(b), _) => Some(b),
                        (3..=4, true, Some(b), _) => Some(b),
                        (3..=4, false, _, Some(a)) => Some(a),
                        _ => Some(band.price(rng)),
                    }
                };
                let price = if p.zero_bids && bid && price.is_some() && band.center_k < 12 && rng.chance(0.25) { Some(0) } else { price };
                if let Some(pr) = price {
                    if pr % tick == 0 {
                        queue_target = Some((bid, pr));
                    }
                }
                let trader = if rng.chance(0.05) { rng.next() as u32 } else if rng.chance(0.02) { *rng.pick(&[0u32, 255, 256, 65535, 65536, 1 << 31, u32::MAX]) } else { rng.below(50) as u32 };
                new_ops.push(Op::CreatePlace { bid, vol, trader, price });
            } else if pick(p.w_cancel) {
                let act: Vec<usize> = m.orders.iter().filter(|o| o.status == ACTIVE).map(|o| o.id).collect();
                let id = if !act.is_empty() && !rng.chance(p.p_any_target) {
                    // prefer queue heads (partially filled heads are the interesting cancels)
                    if rng.chance(0.4) {
                        let q = m.queue(rng.chance(0.5));
                        q.first().copied().or(Some(*rng.pick(&act)))
                    } else {
                        Some(*rng.pick(&act))
                    }
                } else if !m.orders.is_empty() {
                    Some(rng.below(m.orders.len() as u64) as usize)
                } else {
                    None
                };
                if let Some(id) = id {
                    new_ops.push(if ev { Op::EvCancel(id) } else { Op::Cancel(id) });
                }
            } else if pick(p.w_modify) {
                let act: Vec<usize> = m.orders.iter().filter(|o| o.status == ACTIVE).map(|o| o.id).collect();
                let id = if !act.is_empty() && !rng.chance(p.p_any_target) {
                    Some(*rng.pick(&act))
                } else if !m.orders.is_empty() {
                    Some(rng.below(m.orders.len() as u64) as usize)
                } else {
                    None
                };
                if let Some(id) = id {
                    let o = m.orders[id];
                    let price = match rng.below(10) {
                        0..=3 => None,
                        4 => Some(o.price),
                        5 => {
                            // re-price across the spread so that the modification trades
                            let x = if o.bid { m.best_ask() } else { m.best_bid() };
                            x.or(Some(band.price(rng)))
                        }
                        _ => Some(band.price(rng)),
                    };
                    let price = if price.is_some() && rng.chance(p.p_offgrid_modify) { Some(offgrid_price(rng, tick, &band)) } else { price };
                    let price = if p.zero_bids && o.bid && price.is_some() && band.center_k < 12 && rng.chance(0.15) { Some(0) } else { price };
                    let vol = match rng.below(8) {
                        0..=1 => None,
                        2..=4 => {
                            if o.vol > 1 {
                                Some(rng.range(1, (o.vol - 1) as u64) as u32)
                            } else {
                                Some(1)
                            }
                        }
                        5 => Some(o.vol.max(1)),
                        _ => {
                            let extra = rng.range(1, 50).min(head(&m, o.bid).saturating_sub(1)).max(0);
                            Some((o.vol as u64 + extra).min(PMAX as u64 - 1).max(1) as u32)
                        }
                    };
                    if o.status == ACTIVE {
                        let requeue = price.is_some() || vol.map(|v| v >= o.vol).unwrap_or(false);
                        if requeue {
                            let np = price.unwrap_or(o.price);
                            if np % tick == 0 {
                                queue_target = Some((o.bid, np));
                            }
                        }
                    }
                    new_ops.push(if ev { Op::EvModify { id, price, vol } } else { Op::Modify { id, price, vol } });
                }
            } else if pick(p.w_toggle) {
                new_ops.push(Op::SetTrading(if rng.chance(0.85) { !m.trading } else { m.trading }));
            } else if pick(p.w_reset) {
                new_ops.push(Op::ResetTradeVol);
            } else if pick(p.w_reload) {
                new_ops.push(Op::Reload(rng.below(4) as u8));
            } else if pick(p.w_fork) {
                new_ops.push(Op::Fork(rng.below(4) as u8));
            } else {
                new_ops.push(Op::Advance(match rng.below(6) {
                    0 => 0,
                    1..=3 => rng.range(1, 3),
                    4 => rng.range(1, 1000),
                    _ => rng.range(1, 1 << 20),
                }));
            }

            // validity: volumes. In large-volume histories the exact rule of the property is applied to the state *after*
            // the operation (resting volume per side and the traded counter stay below 2^32) by running the operation on a
            // copy of the generator's model: an aggressor may then be larger than the head-room of its own side as long
            // as enough of it trades. Ordinary histories keep the cheaper, conservative pre-state rule below.
            let mut ok = true;
            let exact = large_hist && !new_ops.is_empty();
            if exact {
                let mut probe = m.clone();
                for op in &new_ops {
                    model_apply(&mut probe, op);
                }
                ok = probe.side_vol(true) < PMAX as u64 && probe.side_vol(false) < PMAX as u64 && probe.traded < PMAX as u64;
            }
            let conservative: &[Op] = if exact { &[] } else { &new_ops };
            for op in conservative {
                match op {
                    Op::CreatePlace { bid, vol, .. } | Op::Create { bid, vol, .. } => {
                        if (*vol as u64) + 1 > head(&m, *bid) || m.traded + *vol as u64 >= PMAX as u64 {
                            ok = false;
                        }
                    }
                    Op::Place(id) | Op::EvNew(id) => {
                        let o = m.orders[*id];
                        if o.status == NEW && ((o.vol as u64) + 1 > head(&m, o.bid) || m.traded + o.vol as u64 >= PMAX as u64) {
                            ok = false;
                        }
                    }
                    Op::Modify { id, vol: Some(v), .. } | Op::EvModify { id, vol: Some(v), .. } => {
                        let o = m.orders[*id];
                        if o.status == ACTIVE && ((*v as u64) + 1 > head(&m, o.bid) + o.vol as u64 || m.traded + *v as u64 >= PMAX as u64) {
                            ok = false;
                        }
                    }
                    Op::Modify { id, vol: None, .. } | Op::EvModify { id, vol: None, .. } => {
                        let o = m.orders[*id];
                        if m.traded + o.vol as u64 >= PMAX as u64 {
                            ok = false;
                        }
                    }
                    _ => {}
                }
            }
            if !ok {
                if m.traded > (1 << 31) && p.w_reset > 0 {
                    ops.push(Op::ResetTradeVol);
                    model_apply(&mut m, &Op::ResetTradeVol);
                }
                continue;
            }
            // clock discipline
            if let Some((bid, pr)) = queue_target {
                let tie = m.would_tie(bid, pr);
                let advance = if tie { !rng.chance(p.p_tie) } else { rng.chance(0.3) };
                if advance {
                    let a = Op::Advance(rng.range(1, 3));
                    model_apply(&mut m, &a);
                    ops.push(a);
                }
            }
            for op in new_ops {
                model_apply(&mut m, &op);
                ops.push(op);
            }
        }
        if p.drain {
            if large_hist || m.traded > (1 << 30) {
                // keep the cumulative traded-volume counter below 2^32 through the drain probes
                push_drain_tail_with_resets(&mut ops, m.trading);
            } else {
                push_drain_tail(&mut ops, m.trading);
            }
        }
        History { cfg, ops }
    }
}

pub fn push_drain_tail(ops: &mut Vec<Op>, trading: bool) {
    if !trading {
        ops.push(Op::SetTrading(true));
    }
    ops.push(Op::Advance(1));
    ops.push(Op::Drain { bid: true });
    ops.push(Op::Advance(1));
    ops.push(Op::Drain { bid: false });
}

pub fn push_drain_tail_with_resets(ops: &mut Vec<Op>, trading: bool) {
    if !trading {
        ops.push(Op::SetTrading(true));
    }
    ops.push(Op::Advance(1));
    ops.push(Op::ResetTradeVol);
    ops.push(Op::Drain { bid: true });
    ops.push(Op::Advance(1));
    ops.push(Op::ResetTradeVol);
    ops.push(Op::Drain { bid: false });
}

fn offgrid_price(rng: &mut Sm, tick: u32, band: &Band) -> u32 {
    // arbitrary u32 prices: uniform, near multiples, boundary values
    let p = match rng.below(8) {
        0 => rng.next() as u32,
        1 => 1,
        2 => tick.wrapping_add(1),
        3 => tick.wrapping_sub(1),
        4 => PMAX - 1,
        5 => PMAX - 2,
        _ => {
            let base = band.price(rng);
            if rng.chance(0.5) {
                base.saturating_add(rng.range(1, tick.max(2) as u64 - 1) as u32)
            } else {
                base.saturating_sub(rng.range(1, tick.max(2) as u64 - 1) as u32)
            }
        }
    };
    // keep strictly inside (0, 2^32-1); may or may not be off-grid (for tick 1 everything is on-grid)
    p.clamp(1, PMAX - 1)
}

// ---------------------------------------------------------------------------------------------
// Bounded-exhaustive enumeration
// ---------------------------------------------------------------------------------------------

#[derive(Clone, Debug)]
pub struct ExhCfg {
    pub depth: usize,
    /// clock advance choices before each operation
    pub advances: &'static [u64],
    pub modifies: bool,
    pub toggle: bool,
    pub redundant_place: bool,
    pub prices: [u32; 3],
    pub vols: [u32; 2],
    pub tick: u32,
    pub levels: usize,
    /// also enumerate `Create` (limit order created but not placed; placed later by `Place(k)`), so that orders in
    /// status New take part in cancels, modifies and late placements
    pub creates: bool,
    /// start time of the book (0 makes the first queue stamp coincide with the provisional key time of unplaced orders)
    pub t0: u64,
}

impl ExhCfg {
    pub fn alphabet_at(&self, n_orders: usize, out: &mut Vec<Op>) {
        out.clear();
        for bid in [true, false] {
            for p in self.prices {
                for v in self.vols {
                    out.push(Op::CreatePlace { bid, vol: v, trader: 7, price: Some(p) });
                }
            }
            for v in self.vols {
                out.push(Op::CreatePlace { bid, vol: v, trader: 7, price: None });
            }
            if self.creates {
                for p in self.prices {
                    out.push(Op::Create { bid, vol: self.vols[1], trader: 7, price: Some(p) });
                }
            }
        }
        for k in 0..n_orders {
            out.push(Op::Cancel(k));
        }
        if self.redundant_place || self.creates {
            for k in 0..n_orders {
                out.push(Op::Place(k));
            }
        }
        if self.modifies {
            for k in 0..n_orders {
                for p in [None, Some(self.prices[0]), Some(self.prices[1]), Some(self.prices[2])] {
                    for v in [None, Some(1), Some(2), Some(3)] {
                        if p.is_none() && v.is_none() {
                            continue;
                        }
                        out.push(Op::Modify { id: k, price: p, vol: v });
                    }
                }
            }
        }
        if self.toggle {
            out.push(Op::SetTrading(false)); // resolved to "flip" by the enumerator
        }
    }

    /// All prefixes of length `d` (as index paths) — used to shard the enumeration.
    pub fn count_sequences(&self) -> u128 {
        fn rec(c: &ExhCfg, n: usize, left: usize) -> u128 {
            if left == 0 {
                return 1;
            }
            let place = 16u128 + if c.creates { 6 } else { 0 };
            let others = (n as u128) * (1 + if c.redundant_place || c.creates { 1 } else { 0 } + if c.modifies { 15 } else { 0 }) + if c.toggle { 1 } else { 0 };
            let a = c.advances.len() as u128;
            a * (place * rec(c, n + 1, left - 1) + others * rec(c, n, left - 1))
        }
        rec(self, 0, self.depth)
    }
}

/// Depth-first enumeration of every operation sequence of exactly `cfg.depth` steps whose first
/// `prefix.len()` steps are fixed by `prefix` (pairs of advance index, op index). Calls `leaf` with
/// the flat op list (advances of 0 are omitted: no call is made).
pub fn enumerate(cfg: &ExhCfg, prefix: &[(usize, usize)], leaf: &mut dyn FnMut(&[Op])) {
    let mut ops: Vec<Op> = Vec::with_capacity(cfg.depth * 2 + 6);
    let mut alpha: Vec<Op> = Vec::new();
    // replay the prefix
    let mut n_orders = 0usize;
    let mut trading = true;
    for (ai, oi) in prefix {
        cfg.alphabet_at(n_orders, &mut alpha);
        if *oi >= alpha.len() || *ai >= cfg.advances.len() {
            return;
        }
        let a = cfg.advances[*ai];
        if a > 0 {
            ops.push(Op::Advance(a));
        }
        let mut op = alpha[*oi].clone();
        if let Op::SetTrading(_) = op {
            trading = !trading;
            op = Op::SetTrading(trading);
        }
        if matches!(op, Op::CreatePlace { .. } | Op::Create { .. }) {
            n_orders += 1;
        }
        ops.push(op);
    }
    fn rec(cfg: &ExhCfg, ops: &mut Vec<Op>, n_orders: usize, trading: bool, left: usize, leaf: &mut dyn FnMut(&[Op])) {
        if left == 0 {
            leaf(ops);
            return;
        }
        let mut alpha = Vec::new();
        cfg.alphabet_at(n_orders, &mut alpha);
        for a in cfg.advances {
            for op in &alpha {
                let mark = ops.len();
                if *a > 0 {
                    ops.push(Op::Advance(*a));
                }
                let mut tr = trading;
                let mut op = op.clone();
                if let Op::SetTrading(_) = op {
                    tr = !trading;
                    op = Op::SetTrading(tr);
                }
                let n2 = if matches!(op, Op::CreatePlace { .. } | Op::Create { .. }) { n_orders + 1 } else { n_orders };
                ops.push(op);
                rec(cfg, ops, n2, tr, left - 1, leaf);
                ops.truncate(mark);
            }
        }
    }
    let left = cfg.depth - prefix.len();
    rec(cfg, &mut ops, n_orders, trading, left, leaf);
}

/// The shard list: every (advance, op) index path of length `d`.
pub fn prefixes(cfg: &ExhCfg, d: usize) -> Vec<Vec<(usize, usize)>> {
    let mut out: Vec<Vec<(usize, usize)>> = vec![vec![]];
    let mut alpha = Vec::new();
    for _ in 0..d.min(cfg.depth) {
        let mut next = Vec::new();
        for pre in &out {
            // number of orders after this prefix
            let mut n_orders = 0usize;
            for (_, oi) in pre {
                cfg.alphabet_at(n_orders, &mut alpha);
                if matches!(alpha[*oi], Op::CreatePlace { .. } | Op::Create { .. }) {
                    n_orders += 1;
                }
            }
            cfg.alphabet_at(n_orders, &mut alpha);
            for ai in 0..cfg.advances.len() {
                for oi in 0..alpha.len() {
                    let mut p = pre.clone();
                    p.push((ai, oi));
                    next.push(p);
                }
            }
        }
        out = next;
    }
    out
}

pub fn exh_history(cfg: &ExhCfg, ops: &[Op]) -> History {
    let mut v = ops.to_vec();
    let trading_at_end = ops.iter().rev().find_map(|o| if let Op::SetTrading(x) = o { Some(*x) } else { None }).unwrap_or(true);
    push_drain_tail(&mut v, trading_at_end);
    History { cfg: Cfg { tick: cfg.tick, levels: cfg.levels, t0: cfg.t0, trading0: true }, ops: v }
}
