//! Small self-contained utilities: harness PRNG, hashing, panic capture.

use std::cell::RefCell;
use std::collections::HashSet;
use std::panic::{self, AssertUnwindSafe};

/// SplitMix64 — the harness's own generator. Every random choice of a run is derived from
/// `VERIF_SEED` through a chain of these, so (tree, seed, tier) reproduces a run.
#[derive(Clone, Debug)]
pub struct Sm(pub u64);

impl Sm {
    pub fn new(seed: u64) -> Self {
        Sm(seed.wrapping_mul(0x9E37_79B9_7F4A_7C15).wrapping_add(0x1234_5678_9ABC_DEF1))
    }
    #[inline]
    pub fn next(&mut self) -> u64 {
        self.0 = self.0.wrapping_add(0x9E37_79B9_7F4A_7C15);
        let mut z = self.0;
        z = (z ^ (z >> 30)).wrapping_mul(0xBF58_476D_1CE4_E5B9);
        z = (z ^ (z >> 27)).wrapping_mul(0x94D0_49BB_1331_11EB);
        z ^ (z >> 31)
    }
    /// uniform in 0..n (n > 0)
    #[inline]
    pub fn below(&mut self, n: u64) -> u64 {
        debug_assert!(n > 0);
        // multiply-shift; bias is < n / 2^64
        ((self.next() as u128 * n as u128) >> 64) as u64
    }
    #[inline]
    pub fn range(&mut self, lo: u64, hi_incl: u64) -> u64 {
        lo + self.below(hi_incl - lo + 1)
    }
    #[inline]
    pub fn chance(&mut self, p: f64) -> bool {
        ((self.next() >> 11) as f64) * (1.0 / ((1u64 << 53) as f64)) < p
    }
    pub fn f64(&mut self) -> f64 {
        ((self.next() >> 11) as f64) * (1.0 / ((1u64 << 53) as f64))
    }
    pub fn pick<'a, T>(&mut self, xs: &'a [T]) -> &'a T {
        &xs[self.below(xs.len() as u64) as usize]
    }
    pub fn fork(&mut self) -> Sm {
        Sm(self.next() ^ 0xA5A5_5A5A_C3C3_3C3C)
    }
    /// sub-seed for shard `i`
    pub fn derive(seed: u64, stream: u64) -> Sm {
        let mut s = Sm::new(seed ^ stream.wrapping_mul(0xD6E8_FEB8_6659_FD93));
        s.next();
        s
    }
}

/// FNV-1a 64 — used for distinct counting and digests (no RandomState anywhere in the harness).
#[derive(Clone, Copy)]
pub struct Fnv(pub u64);

impl Default for Fnv {
    fn default() -> Self {
        Fnv(0xcbf2_9ce4_8422_2325)
    }
}

impl Fnv {
    pub fn new() -> Self {
        Self::default()
    }
    #[inline]
    pub fn u8(&mut self, b: u8) {
        self.0 ^= b as u64;
        self.0 = self.0.wrapping_mul(0x0000_0100_0000_01B3);
    }
    #[inline]
    pub fn u64(&mut self, v: u64) {
        for b in v.to_le_bytes() {
            self.u8(b);
        }
    }
    #[inline]
    pub fn u32(&mut self, v: u32) {
        for b in v.to_le_bytes() {
            self.u8(b);
        }
    }
    pub fn bytes(&mut self, bs: &[u8]) {
        for b in bs {
            self.u8(*b);
        }
    }
    pub fn finish(&self) -> u64 {
        // final avalanche so that low bits are usable
        let mut z = self.0;
        z = (z ^ (z >> 33)).wrapping_mul(0xff51_afd7_ed55_8ccd);
        z = (z ^ (z >> 33)).wrapping_mul(0xc4ce_b9fe_1a85_ec53);
        z ^ (z >> 33)
    }
}

/// Bounded set of 64-bit hashes for "distinct" counting. Above the cap the count is frozen
/// (reported as a lower bound), never estimated upwards.
pub struct Distinct {
    set: HashSet<u64, std::hash::BuildHasherDefault<IdHasher>>,
    cap: usize,
    pub saturated: bool,
}

#[derive(Default)]
pub struct IdHasher(u64);
impl std::hash::Hasher for IdHasher {
    fn finish(&self) -> u64 {
        self.0
    }
    fn write(&mut self, bytes: &[u8]) {
        for b in bytes {
            self.0 = (self.0 << 8) | (*b as u64);
        }
    }
    fn write_u64(&mut self, i: u64) {
        self.0 = i;
    }
}

impl Distinct {
    pub fn new(cap: usize) -> Self {
        Distinct { set: HashSet::default(), cap, saturated: false }
    }
    #[inline]
    pub fn add(&mut self, h: u64) {
        if self.set.len() < self.cap {
            self.set.insert(h);
        } else {
            self.saturated = true;
        }
    }
    pub fn len(&self) -> usize {
        self.set.len()
    }
    pub fn merge(&mut self, other: Distinct) {
        for h in other.set {
            self.add(h);
        }
        self.saturated |= other.saturated;
    }
}

thread_local! {
    static LAST_PANIC: RefCell<Option<String>> = const { RefCell::new(None) };
    static CATCH_DEPTH: std::cell::Cell<u32> = const { std::cell::Cell::new(0) };
}

/// Install a panic hook that records the message instead of printing it: a panic inside bourse
/// is an *observed event* that a monitor judges, not noise on stderr.
pub fn install_quiet_panic_hook() {
    panic::set_hook(Box::new(|info| {
        let msg = if let Some(s) = info.payload().downcast_ref::<&str>() {
            (*s).to_string()
        } else if let Some(s) = info.payload().downcast_ref::<String>() {
            s.clone()
        } else {
            "panic".to_string()
        };
        let loc = info
            .location()
            .map(|l| format!("{}:{}", l.file(), l.line()))
            .unwrap_or_default();
        if CATCH_DEPTH.with(|d| d.get()) == 0 {
            eprintln!("harness panic (outside any guarded call): {msg} @ {loc}");
        }
        LAST_PANIC.with(|p| *p.borrow_mut() = Some(format!("{msg} @ {loc}")));
    }));
}

/// Run `f`, converting a panic into `Err(message)`.
pub fn catch<T>(f: impl FnOnce() -> T) -> Result<T, String> {
    CATCH_DEPTH.with(|d| d.set(d.get() + 1));
    let r = panic::catch_unwind(AssertUnwindSafe(f));
    CATCH_DEPTH.with(|d| d.set(d.get() - 1));
    match r {
        Ok(v) => Ok(v),
        Err(_) => Err(LAST_PANIC.with(|p| p.borrow_mut().take()).unwrap_or_else(|| "panic".into())),
    }
}

/// Bernstein threshold: smallest t with 2*exp(-t^2 / (2*(var + t/3))) <= delta, var = N p (1-p).
pub fn bernstein_t(n: f64, p: f64, delta: f64) -> f64 {
    let var = n * p * (1.0 - p);
    let l = (2.0 / delta).ln();
    // t^2 = 2 l (var + t/3)  =>  t = l/3 + sqrt(l^2/9 + 2 l var)
    l / 3.0 + (l * l / 9.0 + 2.0 * l * var).sqrt()
}

pub fn now_s() -> f64 {
    use std::time::{SystemTime, UNIX_EPOCH};
    SystemTime::now().duration_since(UNIX_EPOCH).map(|d| d.as_secs_f64()).unwrap_or(0.0)
}
