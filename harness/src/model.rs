//! Plain records shared by all monitors, and the naive reference matching engine `RefBook`
//! (DESIGN appendix A). Nothing here looks at bourse's data structures.

use serde::{Deserialize, Serialize};

pub const PMAX: u32 = u32::MAX;
pub const UNSET: u64 = u64::MAX;

pub const NEW: u8 = 0;
pub const ACTIVE: u8 = 1;
pub const FILLED: u8 = 2;
pub const CANCELLED: u8 = 3;
pub const REJECTED: u8 = 4;

#[derive(Clone, Copy, PartialEq, Eq, Debug, Serialize, Deserialize, Hash)]
pub struct ROrder {
    pub bid: bool,
    pub status: u8,
    pub arr: u64,
    pub end: u64,
    pub vol: u32,
    pub start_vol: u32,
    pub price: u32,
    pub trader: u32,
    pub id: usize,
}

#[derive(Clone, Copy, PartialEq, Eq, Debug, Serialize, Deserialize, Hash)]
pub struct RTrade {
    pub t: u64,
    pub bid: bool, // side of the passive order
    pub price: u32,
    pub vol: u32,
    pub active: usize,
    pub passive: usize,
}

#[derive(Clone, Copy, Debug, PartialEq, Eq)]
pub struct Rest {
    pub price: u32,
    pub seq: u64,
    pub id: usize,
    pub qtime: u64,
}

/// Straightforward reference matching engine: orders in a Vec, each side a Vec scanned linearly,
/// best = best price then smallest insertion sequence number (FIFO).
#[derive(Clone, Debug)]
pub struct RefBook {
    pub t: u64,
    pub tick: u32,
    pub trading: bool,
    pub ever_disabled: bool,
    pub orders: Vec<ROrder>,
    pub is_market: Vec<bool>,
    pub trades: Vec<RTrade>,
    pub traded: u64,
    pub seq: u64,
    /// rest[0] = bids, rest[1] = asks
    pub rest: [Vec<Rest>; 2],
    /// number of queue insertions that landed on an occupied (side, price, clock time) triple
    pub tie_insertions: u64,
    /// number of orders currently resting that share (side, price, qtime) with another one
    pub clock_went_back: bool,
}

impl RefBook {
    pub fn new(t: u64, tick: u32, trading: bool) -> Self {
        RefBook {
            t,
            tick,
            trading,
            ever_disabled: !trading,
            orders: Vec::new(),
            is_market: Vec::new(),
            trades: Vec::new(),
            traded: 0,
            seq: 0,
            rest: [Vec::new(), Vec::new()],
            tie_insertions: 0,
            clock_went_back: false,
        }
    }

    pub fn set_time(&mut self, t: u64) {
        if t < self.t {
            self.clock_went_back = true;
        }
        self.t = t;
    }

    pub fn set_trading(&mut self, on: bool) {
        self.trading = on;
        if !on {
            self.ever_disabled = true;
        }
    }

    pub fn reset_traded(&mut self) {
        self.traded = 0;
    }

    /// Err(()) iff a limit price is off the tick grid; nothing changes in that case.
    pub fn create(&mut self, bid: bool, vol: u32, trader: u32, price: Option<u32>) -> Result<usize, ()> {
        if let Some(p) = price {
            if p % self.tick != 0 {
                return Err(());
            }
        }
        let id = self.orders.len();
        let p = match price {
            Some(p) => p,
            None => {
                if bid {
                    PMAX
                } else {
                    0
                }
            }
        };
        self.orders.push(ROrder {
            bid,
            status: NEW,
            arr: self.t,
            end: UNSET,
            vol,
            start_vol: vol,
            price: p,
            trader,
            id,
        });
        self.is_market.push(price.is_none());
        Ok(id)
    }

    fn side_idx(bid: bool) -> usize {
        if bid {
            0
        } else {
            1
        }
    }

    /// index into rest[opposite] of the best admissible passive order for aggressor `a`
    fn best_passive(&self, a: &ROrder) -> Option<usize> {
        let opp = &self.rest[Self::side_idx(!a.bid)];
        let mut best: Option<usize> = None;
        for (i, r) in opp.iter().enumerate() {
            let better = match best {
                None => true,
                Some(b) => {
                    let rb = &opp[b];
                    if a.bid {
                        // passive asks: lowest price first
                        r.price < rb.price || (r.price == rb.price && r.seq < rb.seq)
                    } else {
                        r.price > rb.price || (r.price == rb.price && r.seq < rb.seq)
                    }
                }
            };
            if better {
                best = Some(i);
            }
        }
        let b = best?;
        let r = &opp[b];
        let admissible = if a.bid { r.price <= a.price } else { r.price >= a.price };
        if admissible {
            Some(b)
        } else {
            None
        }
    }

    fn do_match(&mut self, id: usize) {
        loop {
            let a = self.orders[id];
            if a.vol == 0 {
                break;
            }
            let Some(pi) = self.best_passive(&a) else { break };
            let opp = Self::side_idx(!a.bid);
            let r = self.rest[opp][pi];
            let pv = self.orders[r.id].vol;
            let f = a.vol.min(pv);
            self.trades.push(RTrade {
                t: self.t,
                bid: self.orders[r.id].bid,
                price: self.orders[r.id].price,
                vol: f,
                active: id,
                passive: r.id,
            });
            self.traded += f as u64;
            self.orders[id].vol -= f;
            self.orders[r.id].vol -= f;
            if self.orders[r.id].vol == 0 {
                self.orders[r.id].status = FILLED;
                self.orders[r.id].end = self.t;
                self.rest[opp].remove(pi);
            }
            if self.orders[id].vol == 0 {
                self.orders[id].status = FILLED;
                self.orders[id].end = self.t;
            }
        }
    }

    fn enqueue(&mut self, id: usize) {
        let o = self.orders[id];
        let s = Self::side_idx(o.bid);
        if self.rest[s].iter().any(|r| r.price == o.price && r.qtime == self.t) {
            self.tie_insertions += 1;
        }
        self.rest[s].push(Rest { price: o.price, seq: self.seq, id, qtime: self.t });
        self.seq += 1;
    }

    fn dequeue(&mut self, id: usize) {
        let s = Self::side_idx(self.orders[id].bid);
        if let Some(i) = self.rest[s].iter().position(|r| r.id == id) {
            self.rest[s].remove(i);
        }
    }

    pub fn place(&mut self, id: usize) {
        if self.orders[id].status != NEW {
            return;
        }
        self.orders[id].status = ACTIVE;
        self.orders[id].arr = self.t;
        if self.is_market[id] {
            if !self.trading {
                self.orders[id].status = REJECTED;
                self.orders[id].end = self.t;
            } else {
                self.do_match(id);
                if self.orders[id].status != FILLED {
                    self.orders[id].status = CANCELLED;
                    self.orders[id].end = self.t;
                }
            }
        } else {
            if self.trading {
                self.do_match(id);
            }
            if self.orders[id].status != FILLED {
                self.enqueue(id);
            }
        }
    }

    pub fn cancel(&mut self, id: usize) {
        if self.orders[id].status == ACTIVE {
            self.orders[id].status = CANCELLED;
            self.orders[id].end = self.t;
            self.dequeue(id);
        }
    }

    fn replace(&mut self, id: usize, p: u32, v: u32) {
        self.dequeue(id);
        self.orders[id].vol = v;
        self.orders[id].price = p;
        if self.trading {
            self.do_match(id);
        }
        if self.orders[id].status != FILLED {
            self.enqueue(id);
        }
    }

    /// Off-grid new prices are outside the valid-history space of the reference (C12 owns them);
    /// the caller never passes one.
    pub fn modify(&mut self, id: usize, np: Option<u32>, nv: Option<u32>) {
        if self.orders[id].status != ACTIVE {
            return;
        }
        let o = self.orders[id];
        match (np, nv) {
            (None, None) => {}
            (None, Some(v)) => {
                if v < o.vol {
                    self.orders[id].vol = v;
                } else {
                    self.replace(id, o.price, v);
                }
            }
            (Some(p), None) => self.replace(id, p, o.vol),
            (Some(p), Some(v)) => self.replace(id, p, v),
        }
    }

    /// Resting ids of one side in priority order (best price first, FIFO within a price).
    pub fn queue(&self, bid: bool) -> Vec<usize> {
        let mut v: Vec<Rest> = self.rest[Self::side_idx(bid)].clone();
        if bid {
            v.sort_by(|a, b| b.price.cmp(&a.price).then(a.seq.cmp(&b.seq)));
        } else {
            v.sort_by(|a, b| a.price.cmp(&b.price).then(a.seq.cmp(&b.seq)));
        }
        v.into_iter().map(|r| r.id).collect()
    }

    pub fn side_vol(&self, bid: bool) -> u64 {
        self.rest[Self::side_idx(bid)].iter().map(|r| self.orders[r.id].vol as u64).sum()
    }

    /// true iff some pair of currently resting orders shares (side, price, clock time at queuing)
    pub fn has_resting_tie(&self) -> bool {
        for s in 0..2 {
            let v = &self.rest[s];
            for i in 0..v.len() {
                for j in (i + 1)..v.len() {
                    if v[i].price == v[j].price && v[i].qtime == v[j].qtime {
                        return true;
                    }
                }
            }
        }
        false
    }

    /// Would queuing an order now at (side, price) land on an occupied (side, price, time) triple?
    pub fn would_tie(&self, bid: bool, price: u32) -> bool {
        self.rest[Self::side_idx(bid)].iter().any(|r| r.price == price && r.qtime == self.t)
    }

    pub fn best_bid(&self) -> Option<u32> {
        self.rest[0].iter().map(|r| r.price).max()
    }
    pub fn best_ask(&self) -> Option<u32> {
        self.rest[1].iter().map(|r| r.price).min()
    }
}
