//! bvmon — runtime monitors for zombie-einstein/bourse. One sub-command per property.
//!
//! usage: bvmon <c01..c20> <quick|thorough> [seed]
//!        bvmon replay <file>

#![allow(dead_code)]
mod bookcheck;
mod c09;
mod c16;
mod c17;
mod c20;
#[allow(clippy::all)]
mod shapes_gen;
mod checks_book;
mod checks_env;
mod checks_mixed;
mod marketsession;
mod envlib;
mod envsession;
mod extra;
mod gen;
mod model;
mod ops;
mod pycheck;
mod real;
mod report;
mod util;

use report::{Ctx, Tier};

fn main() {
    util::install_quiet_panic_hook();
    let args: Vec<String> = std::env::args().collect();
    if args.len() < 2 {
        eprintln!("usage: bvmon <check> <quick|thorough> [seed] | replay <file>");
        std::process::exit(2);
    }
    let cmd = args[1].to_lowercase();
    if cmd == "replay" {
        std::process::exit(replay(&args[2]));
    }
    let tier = match args.get(2).map(|s| s.as_str()) {
        Some("thorough") => Tier::Thorough,
        _ => Tier::Quick,
    };
    let seed: u64 = args
        .get(3)
        .and_then(|s| s.parse().ok())
        .or_else(|| std::env::var("VERIF_SEED").ok().and_then(|s| s.parse().ok()))
        .unwrap_or(1);
    if cmd == "miri-slice" {
        let seed: u64 = args.get(2).and_then(|s| s.parse().ok()).unwrap_or(1);
        let h: usize = args.get(3).and_then(|s| s.parse().ok()).unwrap_or(2);
        let e: usize = args.get(4).and_then(|s| s.parse().ok()).unwrap_or(1);
        std::process::exit(extra::miri_slice(seed, h, e));
    }
    if cmd == "py-scripts" {
        let seed: u64 = args.get(2).and_then(|s| s.parse().ok()).unwrap_or(1);
        let n: usize = args.get(3).and_then(|s| s.parse().ok()).unwrap_or(8);
        std::process::exit(pycheck::write_scripts(seed, n, &args[4]));
    }
    if cmd == "c09-child" {
        std::process::exit(c09::child(&args[2], args[3] == "1", args[4].parse().unwrap_or(0)));
    }
    if cmd == "c07-trunc" {
        std::process::exit(checks_mixed::c07_trunc_child(tier, seed, &args[4]));
    }
    let prop = cmd.to_uppercase();
    let ctx = Ctx::new(&prop, tier, seed);
    let code = match cmd.as_str() {
        "c01" => checks_book::c01(&ctx),
        "c02" => checks_book::c02(&ctx),
        "c03" => checks_book::c03(&ctx),
        "c04" => checks_book::c04(&ctx),
        "c05" => checks_mixed::c05(&ctx),
        "c07" => checks_mixed::c07(&ctx),
        "c06" => checks_book::c06(&ctx),
        "c08" => checks_env::c08(&ctx),
        "c10" => checks_env::c10(&ctx),
        "c11" => checks_env::c11(&ctx),
        "c12" => checks_mixed::c12(&ctx),
        "c13" => checks_mixed::c13(&ctx),
        "c14" => checks_mixed::c14(&ctx),
        "c15" => checks_mixed::c15(&ctx),
        "c09" => c09::c09(&ctx),
        "c16" => c16::c16(&ctx),
        "c17" => c17::c17(&ctx),
        "c18" => pycheck::c18(&ctx),
        "c19" => pycheck::c19(&ctx),
        "c20" => c20::c20(&ctx),
        other => {
            eprintln!("unknown check {}", other);
            2
        }
    };
    std::process::exit(code);
}

fn replay(path: &str) -> i32 {
    let text = match std::fs::read_to_string(path) {
        Ok(t) => t,
        Err(e) => {
            eprintln!("cannot read {}: {}", path, e);
            return 2;
        }
    };
    let doc: serde_json::Value = match serde_json::from_str(&text) {
        Ok(d) => d,
        Err(e) => {
            eprintln!("bad replay file: {}", e);
            return 2;
        }
    };
    let scratch = format!("/verif/target/scratch/replay-{}", std::process::id());
    std::fs::create_dir_all(&scratch).ok();
    let code = match doc["kind"].as_str() {
        Some("book_history") => {
            let h: ops::History = serde_json::from_value(doc["history"].clone()).expect("history");
            let mons = doc["mons"].as_u64().unwrap_or(0) as u32;
            let policy = bookcheck::policy_from_str(doc["policy"].as_str().unwrap_or("Any"));
            let mut cs = ops::Census::default();
            match bookcheck::run_guarded(&h, mons, policy, &scratch, &mut cs) {
                Err(f) => {
                    println!("REPRODUCED property={} {} / {} at op {}: {}", doc["property"].as_str().unwrap_or("?"), f.monitor, f.kind, f.op_index, f.detail);
                    1
                }
                Ok(()) => {
                    println!("NOT-REPRODUCED property={} (history passes on this tree)", doc["property"].as_str().unwrap_or("?"));
                    0
                }
            }
        }
        Some("c01_long") => {
            let seed = doc["seed"].as_u64().unwrap_or(0);
            let ops = doc["ops"].as_u64().unwrap_or(0) as usize;
            match util::catch(|| extra::long_history::<bourse_book::OrderBook<10>>(seed, ops)).unwrap_or_else(|p| Err(format!("panic: {}", p))) {
                Err(e) => {
                    println!("REPRODUCED property=C01 {}", e);
                    1
                }
                Ok(_) => {
                    println!("NOT-REPRODUCED property=C01");
                    0
                }
            }
        }
        Some("huge_step") => {
            let seed = doc["seed"].as_u64().unwrap_or(0);
            let n = doc["n"].as_u64().unwrap_or(0) as usize;
            let r = if doc["env"].as_u64().unwrap_or(0) == 0 { extra::huge_step::<bourse_de::Env<10>>(seed, n).map(|_| ()) } else { extra::huge_step::<bourse_de::MarketEnv<3, 5>>(seed, n).map(|_| ()) };
            match r {
                Err((k, d)) => {
                    println!("REPRODUCED property={} {}: {}", doc["property"].as_str().unwrap_or("?"), k, d);
                    1
                }
                Ok(()) => {
                    println!("NOT-REPRODUCED");
                    0
                }
            }
        }
        Some("mass_sweep") => {
            let (seed, n, tied) = (doc["seed"].as_u64().unwrap_or(0), doc["n"].as_u64().unwrap_or(0) as usize, doc["tied"].as_bool().unwrap_or(false));
            match util::catch(|| extra::mass_sweep::<bourse_book::OrderBook<5>>(seed, n, tied)).unwrap_or_else(|p| Err(("panic_in_sweep".into(), p))) {
                Err((k, d)) => {
                    println!("REPRODUCED property={} {}: {}", doc["property"].as_str().unwrap_or("?"), k, d);
                    1
                }
                Ok(_) => {
                    println!("NOT-REPRODUCED");
                    0
                }
            }
        }
        Some("mass_level") => {
            let (seed, n) = (doc["seed"].as_u64().unwrap_or(0), doc["n"].as_u64().unwrap_or(0) as usize);
            let r = if doc["env"].as_u64().unwrap_or(0) == 0 { extra::mass_level_records::<bourse_de::Env<10>>(seed, n) } else { extra::mass_level_records::<bourse_de::MarketEnv<2, 10>>(seed, n) };
            match r {
                Err((k, d)) => {
                    println!("REPRODUCED property=C11 {}: {}", k, d);
                    1
                }
                Ok(_) => {
                    println!("NOT-REPRODUCED");
                    0
                }
            }
        }
        Some("c02_views_only") => {
            let h: ops::History = serde_json::from_value(doc["history"].clone()).expect("history");
            match checks_book::replay_views_only(&h) {
                true => {
                    println!("REPRODUCED property=C02");
                    1
                }
                false => {
                    println!("NOT-REPRODUCED property=C02");
                    0
                }
            }
        }
        Some("env_session") => checks_env::replay_env(&doc),
        Some("market_session") => checks_mixed::replay_market(&doc),
        Some("c20") => c20::replay_c20(&doc),
        Some("c16") => c16::replay_c16(&doc),
        Some("c09") => c09::replay_c09(&doc),
        Some("c17") => c17::replay_c17(&doc),
        other => {
            eprintln!("unknown replay kind {:?}", other);
            2
        }
    };
    std::fs::remove_dir_all(&scratch).ok();
    code
}
