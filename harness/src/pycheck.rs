//! C18 / C19 — the Python classes against the Rust core. `bvmon` generates call scripts together
//! with the values the Rust core yields for the same calls; `pyharness/run_scripts.py` executes them
//! on the real compiled extension under CPython and reports every disagreement; snapshots are
//! cross-loaded in both directions.

use crate::envlib::{l2_of, SimEnv};
use crate::real::{conv_order, conv_trade, side_of, Obs, RealBook};
use crate::report::{floors, Ctx, Violation};
use crate::util::{Distinct, Fnv, Sm};
use bourse_book::OrderBook;
use bourse_de::Env;
use rand_xoshiro::rand_core::SeedableRng;
use rand_xoshiro::Xoroshiro128StarStar;
use serde_json::{json, Value};

fn order_json(o: &crate::model::ROrder) -> Value {
    json!([o.bid, o.status, o.arr, o.end, o.vol, o.start_vol, o.price, o.trader, o.id])
}
fn trade_json(t: &crate::model::RTrade) -> Value {
    json!([t.t, t.bid, t.price, t.vol, t.active, t.passive])
}
fn orders_json<B: RealBook>(b: &B) -> Value {
    Value::Array(b.orders().iter().map(order_json).collect())
}
fn trades_json<B: RealBook>(b: &B) -> Value {
    Value::Array(b.trades().iter().map(trade_json).collect())
}

fn call(m: &str, args: Value, kwargs: Value, expect: Value) -> Value {
    json!({"m": m, "args": args, "kwargs": kwargs, "expect": expect})
}
fn prop(m: &str, expect: Value) -> Value {
    json!({"m": m, "prop": true, "expect": {"v": expect}})
}

/// modify_order in keyword, positional or mixed form (documented order: order_id, new_price, new_vol)
fn modify_call(rng: &mut Sm, oid: usize, np: Option<u32>, nv: Option<u32>) -> Value {
    match rng.below(3) {
        0 => {
            let mut kw = serde_json::Map::new();
            if let Some(p) = np {
                kw.insert("new_price".into(), json!(p));
            }
            if let Some(v) = nv {
                kw.insert("new_vol".into(), json!(v));
            }
            call("modify_order", json!([oid]), Value::Object(kw), json!({"v": null}))
        }
        1 => call("modify_order", json!([oid, np, nv]), json!({}), json!({"v": null})),
        _ => {
            let mut kw = serde_json::Map::new();
            if let Some(v) = nv {
                kw.insert("new_vol".into(), json!(v));
            }
            call("modify_order", json!([oid, np]), Value::Object(kw), json!({"v": null}))
        }
    }
}

struct Band {
    tick: u32,
    center: u64,
    half: u64,
}
impl Band {
    fn price(&self, rng: &mut Sm) -> u32 {
        (rng.range(self.center - self.half, self.center + self.half) * self.tick as u64) as u32
    }
}

fn overflow_int(rng: &mut Sm, bits: u32) -> Value {
    match rng.below(3) {
        0 => json!(-1 - rng.below(1000) as i64),
        1 => {
            if bits == 32 {
                json!((1u64 << 32) + rng.below(1000))
            } else {
                // 2^64 + x does not fit a JSON integer here: passed as a decimal string
                json!({"int": format!("{}", (1u128 << 64) + rng.below(1000) as u128)})
            }
        }
        _ => {
            if bits == 32 {
                json!(1u64 << 40)
            } else {
                json!({"int": "340282366920938463463374607431768211455"})
            }
        }
    }
}

pub struct GenOut {
    pub script: Value,
    /// snapshots written by Python: (path, observation the Rust core had at that point)
    pub py_snapshots: Vec<(String, Obs)>,
    pub n_calls: usize,
    pub n_exc: usize,
    pub n_trades: usize,
}

/// C18: a call script over the non-numpy OrderBook API.
pub fn gen_orderbook_script(id: usize, rng: &mut Sm, n_calls: usize, dir: &str) -> GenOut {
    let tick = rng.range(1, 10) as u32;
    // a few clocks start beyond what a double can hold exactly (epoch nanoseconds and above)
    let t0 = if rng.chance(0.06) { (1u64 << *rng.pick(&[53u32, 60, 62])) + 1 + 2 * rng.below(500) } else { rng.below(1000) };
    let trading0 = !rng.chance(0.1);
    let mut b: OrderBook<10> = OrderBook::new(t0, tick, trading0);
    let band = Band { tick, center: rng.range(50, 5000), half: rng.range(1, 8) };
    let mut calls: Vec<Value> = Vec::new();
    let mut t = t0;
    let mut snaps = Vec::new();
    let mut n_exc = 0;
    let verify = |b: &OrderBook<10>, calls: &mut Vec<Value>| {
        calls.push(call("get_orders", json!([]), json!({}), json!({"v": orders_json(b)})));
        calls.push(call("get_trades", json!([]), json!({}), json!({"v": trades_json(b)})));
        calls.push(call("bid_ask", json!([]), json!({}), json!({"v": [b.bid_ask().0, b.bid_ask().1]})));
    };
    while calls.len() < n_calls {
        let n_orders = b.get_orders().len();
        let r = rng.below(100);
        if r < 30 {
            // place_order: limit / market / off-grid
            let bid = rng.chance(0.5);
            // volume 0 is an in-range argument of the Python API: whatever the core does with it, the binding does the same
            let vol = if rng.chance(0.03) { 0 } else { rng.range(1, 90) as u32 };
            let trader = rng.below(100) as u32;
            let market = rng.chance(0.12);
            let mut price = if market { None } else { Some(band.price(rng)) };
            if !market && tick > 1 && rng.chance(0.12) {
                price = Some(price.unwrap() + rng.range(1, tick as u64 - 1) as u32);
            }
            if rng.chance(0.7) {
                t += rng.range(1, 5);
                b.set_time(t);
                calls.push(call("set_time", json!([t]), json!({}), json!({"v": null})));
            }
            let res = b.create_and_place_order(side_of(bid), vol, trader, price);
            let (args, kwargs) = match (price, rng.chance(0.5)) {
                (Some(p), true) => (json!([bid, vol, trader]), json!({"price": p})),
                (Some(p), false) => (json!([bid, vol, trader, p]), json!({})),
                (None, true) => (json!([bid, vol, trader]), json!({})),
                (None, false) => (json!([bid, vol, trader, null]), json!({})),
            };
            match res {
                Ok(oid) => calls.push(call("place_order", args, kwargs, json!({"v": oid}))),
                Err(_) => {
                    n_exc += 1;
                    calls.push(call("place_order", args, kwargs, json!({"exc": "ValueError"})));
                    verify(&b, &mut calls);
                }
            }
        } else if r < 40 && n_orders > 0 {
            let oid = rng.below(n_orders as u64) as usize;
            b.cancel_order(oid);
            calls.push(call("cancel_order", json!([oid]), json!({}), json!({"v": null})));
        } else if r < 55 && n_orders > 0 {
            let oid = rng.below(n_orders as u64) as usize;
            let mut np = if rng.chance(0.6) { Some(band.price(rng)) } else { None };
            if np.is_some() && tick > 1 && rng.chance(0.15) {
                np = Some(np.unwrap() + 1);
            }
            let nv = if rng.chance(0.7) { Some(if rng.chance(0.04) { 0 } else { rng.range(1, 100) as u32 }) } else { None };
            t += 1;
            b.set_time(t);
            calls.push(call("set_time", json!([t]), json!({}), json!({"v": null})));
            b.modify_order(oid, np, nv);
            calls.push(modify_call(rng, oid, np, nv));
        } else if r < 60 {
            if rng.chance(0.5) {
                b.disable_trading();
                calls.push(call("disable_trading", json!([]), json!({}), json!({"v": null})));
            } else {
                b.enable_trading();
                calls.push(call("enable_trading", json!([]), json!({}), json!({"v": null})));
            }
        } else if r < 68 {
            // out-of-range integers: OverflowError, object unchanged
            n_exc += 1;
            let oid = if n_orders > 0 { rng.below(n_orders as u64) as usize } else { 0 };
            let c = match rng.below(7) {
                0 => call("place_order", json!([true, overflow_int(rng, 32), 1]), json!({"price": band.price(rng)}), json!({"exc": "OverflowError"})),
                1 => call("place_order", json!([false, 5, overflow_int(rng, 32)]), json!({"price": band.price(rng)}), json!({"exc": "OverflowError"})),
                2 => call("place_order", json!([true, 5, 1]), json!({"price": overflow_int(rng, 32)}), json!({"exc": "OverflowError"})),
                3 => call("set_time", json!([overflow_int(rng, 64)]), json!({}), json!({"exc": "OverflowError"})),
                4 => call("cancel_order", json!([-1 - rng.below(5) as i64]), json!({}), json!({"exc": "OverflowError"})),
                5 => call("modify_order", json!([oid]), json!({"new_price": overflow_int(rng, 32)}), json!({"exc": "OverflowError"})),
                _ => call("modify_order", json!([oid]), json!({"new_vol": overflow_int(rng, 32)}), json!({"exc": "OverflowError"})),
            };
            if n_orders > 0 || !c["m"].as_str().unwrap().starts_with("modify") {
                calls.push(c);
                verify(&b, &mut calls);
            }
        } else if r < 90 {
            let c = match rng.below(11) {
                0 => call("ask_vol", json!([]), json!({}), json!({"v": b.ask_vol()})),
                1 => call("best_ask_vol", json!([]), json!({}), json!({"v": b.ask_best_vol()})),
                2 => call("best_ask_vol_and_orders", json!([]), json!({}), json!({"v": [b.ask_best_vol_and_orders().0, b.ask_best_vol_and_orders().1]})),
                3 => call("bid_vol", json!([]), json!({}), json!({"v": b.bid_vol()})),
                4 => call("best_bid_vol", json!([]), json!({}), json!({"v": b.bid_best_vol()})),
                5 => call("best_bid_vol_and_orders", json!([]), json!({}), json!({"v": [b.bid_best_vol_and_orders().0, b.bid_best_vol_and_orders().1]})),
                6 => call("bid_ask", json!([]), json!({}), json!({"v": [b.bid_ask().0, b.bid_ask().1]})),
                7 if n_orders > 0 => {
                    let oid = rng.below(n_orders as u64) as usize;
                    call("order_status", json!([oid]), json!({}), json!({"v": crate::real::status_u8(b.order(oid).status)}))
                }
                8 => call("get_trades", json!([]), json!({}), json!({"v": trades_json(&b)})),
                _ => call("get_orders", json!([]), json!({}), json!({"v": orders_json(&b)})),
            };
            calls.push(c);
        } else if r < 95 {
            // snapshot written from Python, loaded by the Rust core afterwards
            let path = format!("{}/py-{}-{}{}", dir, id, snaps.len(), *rng.pick(&[".json", ".json", "", ".snapshot", ".v1.bak"]));
            calls.push(json!({"m": "__save__", "args": [path, rng.chance(0.5)], "expect": {"v": null}}));
            snaps.push((path, b.obs()));
        } else {
            // snapshot written by the Rust core, loaded from Python; the script continues on the loaded object
            let path = format!("{}/rs-{}-{}{}", dir, id, calls.len(), *rng.pick(&[".json", ".json", "", ".dat"]));
            b.save_json(&path, rng.chance(0.5)).unwrap();
            calls.push(json!({"m": "__load__", "args": [path], "expect": {"v": null}}));
            verify(&b, &mut calls);
            calls.push(call("ask_vol", json!([]), json!({}), json!({"v": b.ask_vol()})));
            calls.push(call("best_bid_vol_and_orders", json!([]), json!({}), json!({"v": [b.bid_best_vol_and_orders().0, b.bid_best_vol_and_orders().1]})));
        }
    }
    verify(&b, &mut calls);
    // constructor: out-of-range arguments raise OverflowError; `trading` defaults to True
    calls.push(json!({"m": "__new__", "kind": "orderbook", "args": [overflow_int(rng, 64), 1], "expect": {"exc": "OverflowError"}}));
    calls.push(json!({"m": "__new__", "kind": "orderbook", "args": [0, overflow_int(rng, 32)], "expect": {"exc": "OverflowError"}}));
    n_exc += 2;
    {
        // default trading flag: a market order placed on a fresh default book is not Rejected
        let mut fresh: OrderBook<10> = OrderBook::new(3, tick, true);
        let _ = fresh.create_and_place_order(side_of(true), 5, 1, None);
        calls.push(json!({"m": "__new__", "kind": "orderbook", "args": [3, tick], "probe": "bid_ask", "expect": {"v": [fresh.bid_ask().0, fresh.bid_ask().1]}}));
    }
    let n_trades = b.get_trades().len();
    let n = calls.len();
    let ctor_kwargs = if trading0 && id % 4 < 2 { json!({}) } else { json!({"trading": trading0}) };
    GenOut {
        script: json!({"id": id, "kind": "orderbook", "ctor": {"args": [t0, tick], "kwargs": ctor_kwargs}, "calls": calls}),
        py_snapshots: snaps,
        n_calls: n,
        n_exc,
        n_trades,
    }
}

fn env_props(env: &Env, calls: &mut Vec<Value>, rng: &mut Sm, all: bool) {
    let d = env.level_2_data();
    let items: Vec<Value> = vec![
        prop("time", json!(env.get_orderbook().get_time())),
        prop("ask_vol", json!(d.ask_vol)),
        prop("best_ask_vol", json!(d.ask_price_levels[0].0)),
        prop("best_ask_vol_and_orders", json!([d.ask_price_levels[0].0, d.ask_price_levels[0].1])),
        prop("bid_vol", json!(d.bid_vol)),
        prop("best_bid_vol", json!(d.bid_price_levels[0].0)),
        prop("best_bid_vol_and_orders", json!([d.bid_price_levels[0].0, d.bid_price_levels[0].1])),
        prop("trade_vol", json!(env.get_orderbook().get_trade_vol())),
        prop("bid_ask", json!([d.bid_price, d.ask_price])),
    ];
    for it in items {
        if all || rng.chance(0.3) {
            calls.push(it);
        }
    }
}

/// C18: a call script over the non-numpy StepEnv API (deterministic in its seed).
pub fn gen_stepenv_script(id: usize, rng: &mut Sm, n_calls: usize) -> GenOut {
    let tick = rng.range(1, 10) as u32;
    let t0 = if rng.chance(0.06) { (1u64 << *rng.pick(&[53u32, 60, 62])) + 1 + 2 * rng.below(500) } else { rng.below(1000) };
    // one script in twenty steps by an odd number just above 2^53 / 2^54 / 2^56 time units (not representable as a double)
    let step_size = if rng.chance(0.05) { (1u64 << *rng.pick(&[53u32, 54, 56])) + 1 + 2 * rng.below(50) } else { *rng.pick(&[16u64, 100, 10_000, 10_001]) };
    let seed = rng.next() >> rng.below(40);
    let trading0 = !rng.chance(0.1);
    let mut env: Env = Env::new(t0, tick, step_size, trading0);
    let mut xr = Xoroshiro128StarStar::seed_from_u64(seed);
    let band = Band { tick, center: rng.range(50, 5000), half: rng.range(1, 6) };
    let mut calls: Vec<Value> = Vec::new();
    let mut n_exc = 0;
    let mut pending = 0u64;
    while calls.len() < n_calls {
        let n_orders = env.get_orders().len();
        let r = rng.below(100);
        if r < 40 && pending < step_size.min(14) {
            let bid = rng.chance(0.5);
            let vol = rng.range(1, 90) as u32;
            let trader = rng.below(100) as u32;
            let market = rng.chance(0.12);
            let mut price = if market { None } else { Some(band.price(rng)) };
            if !market && tick > 1 && rng.chance(0.1) {
                price = Some(price.unwrap() + 1);
            }
            let res = env.place_order(side_of(bid), vol, trader, price);
            let (args, kwargs) = match price {
                Some(p) => (json!([bid, vol, trader]), json!({"price": p})),
                None => (json!([bid, vol, trader]), json!({})),
            };
            match res {
                Ok(oid) => {
                    pending += 1;
                    calls.push(call("place_order", args, kwargs, json!({"v": oid})))
                }
                Err(_) => {
                    n_exc += 1;
                    calls.push(call("place_order", args, kwargs, json!({"exc": "ValueError"})));
                    calls.push(call("get_orders", json!([]), json!({}), json!({"v": orders_json(env.get_orderbook())})));
                }
            }
        } else if r < 48 && pending + 2 <= step_size.min(14) && rng.chance(0.12) {
            // an instruction for the id the NEXT order will get, queued before that order is submitted in the same step
            // (the core queues instructions without looking at the id; the order exists by the time the step runs)
            let oid = n_orders;
            if rng.chance(0.5) {
                env.cancel_order(oid);
                calls.push(call("cancel_order", json!([oid]), json!({}), json!({"v": null})));
            } else {
                let nv = Some(rng.range(1, 100) as u32);
                env.modify_order(oid, None, nv);
                calls.push(modify_call(rng, oid, None, nv));
            }
            let bid = rng.chance(0.5);
            let vol = rng.range(1, 90) as u32;
            let p = band.price(rng);
            let got = env.place_order(side_of(bid), vol, 7, Some(p)).unwrap();
            calls.push(call("place_order", json!([bid, vol, 7]), json!({"price": p}), json!({"v": got})));
            pending += 2;
        } else if r < 48 && n_orders > 0 && pending < step_size.min(14) {
            let oid = rng.below(n_orders as u64) as usize;
            env.cancel_order(oid);
            pending += 1;
            calls.push(call("cancel_order", json!([oid]), json!({}), json!({"v": null})));
        } else if r < 58 && n_orders > 0 && pending < step_size.min(14) {
            let oid = rng.below(n_orders as u64) as usize;
            let np = if rng.chance(0.6) { Some(band.price(rng)) } else { None };
            let nv = if rng.chance(0.7) { Some(rng.range(1, 100) as u32) } else { None };
            env.modify_order(oid, np, nv);
            pending += 1;
            calls.push(modify_call(rng, oid, np, nv));
        } else if r < 72 {
            env.step(&mut xr);
            pending = 0;
            calls.push(call("step", json!([]), json!({}), json!({"v": null})));
            env_props(&env, &mut calls, rng, false);
            if rng.chance(0.5) {
                calls.push(call("get_orders", json!([]), json!({}), json!({"v": orders_json(env.get_orderbook())})));
                calls.push(call("get_trades", json!([]), json!({}), json!({"v": trades_json(env.get_orderbook())})));
            }
        } else if r < 76 {
            if rng.chance(0.5) {
                env.disable_trading();
                calls.push(call("disable_trading", json!([]), json!({}), json!({"v": null})));
            } else {
                env.enable_trading();
                calls.push(call("enable_trading", json!([]), json!({}), json!({"v": null})));
            }
        } else if r < 82 {
            n_exc += 1;
            let c = match rng.below(4) {
                0 => call("place_order", json!([true, overflow_int(rng, 32), 1]), json!({"price": band.price(rng)}), json!({"exc": "OverflowError"})),
                1 => call("place_order", json!([true, 3, 1]), json!({"price": overflow_int(rng, 32)}), json!({"exc": "OverflowError"})),
                2 => call("cancel_order", json!([-3]), json!({}), json!({"exc": "OverflowError"})),
                _ => call("modify_order", json!([0]), json!({"new_vol": overflow_int(rng, 32)}), json!({"exc": "OverflowError"})),
            };
            calls.push(c);
            calls.push(call("get_orders", json!([]), json!({}), json!({"v": orders_json(env.get_orderbook())})));
        } else if r < 92 {
            env_props(&env, &mut calls, rng, false);
        } else if n_orders > 0 {
            let oid = rng.below(n_orders as u64) as usize;
            calls.push(call("order_status", json!([oid]), json!({}), json!({"v": crate::real::status_u8(env.order_status(oid))})));
        }
    }
    env.step(&mut xr);
    calls.push(call("step", json!([]), json!({}), json!({"v": null})));
    env_props(&env, &mut calls, rng, true);
    calls.push(call("get_orders", json!([]), json!({}), json!({"v": orders_json(env.get_orderbook())})));
    calls.push(call("get_trades", json!([]), json!({}), json!({"v": trades_json(env.get_orderbook())})));
    // constructor argument conversion
    let which = rng.below(4) as usize;
    let mut args = vec![json!(1), json!(0), json!(1), json!(10)];
    args[which] = overflow_int(rng, if which == 2 { 32 } else { 64 });
    calls.push(json!({"m": "__new__", "kind": "stepenv", "args": args, "expect": {"exc": "OverflowError"}}));
    n_exc += 1;
    let n = calls.len();
    let ctor_kwargs = if trading0 && id % 4 < 2 { json!({}) } else { json!({"trading": trading0}) };
    GenOut {
        script: json!({"id": id, "kind": "stepenv", "ctor": {"args": [seed, t0, tick, step_size], "kwargs": ctor_kwargs}, "calls": calls}),
        py_snapshots: vec![],
        n_calls: n,
        n_exc,
        n_trades: env.get_trades().len(),
    }
}

// ---------------------------------------------------------------------------------------------
// C19 expectations: the documented layouts
// ---------------------------------------------------------------------------------------------

/// Traded volume per step recomputed from the trade log alone: trades stamped in [start_j, start_j + step_size).
/// Independent of the environment's own counter, so a counter that is not reset (or reset late) shows.
fn traded_per_step(env: &Env, t0: u64, step_size: u64) -> Vec<u32> {
    let now = env.get_orderbook().get_time();
    let k = ((now - t0) / step_size) as usize;
    let mut v = vec![0u32; k];
    for t in env.get_trades() {
        let j = ((t.t - t0) / step_size) as usize;
        if j < k {
            v[j] += t.vol;
        }
    }
    v
}
/// Same, for scripts whose step size is 0 (the clock never moves, so time windows say nothing): the growth of the trade log
/// between the ends of consecutive steps (`marks[j]` = log length after step j).
fn traded_steps(env: &Env, t0: u64, step_size: u64, marks: &[usize]) -> Vec<u32> {
    if step_size > 0 {
        return traded_per_step(env, t0, step_size);
    }
    let tr = env.get_trades();
    let mut v = Vec::new();
    let mut lo = 0usize;
    for m in marks {
        v.push(tr[lo..*m].iter().map(|t| t.vol).sum());
        lo = *m;
    }
    v
}
fn doc_level1(env: &Env, traded: u32) -> Vec<u32> {
    let d = env.level_2_data();
    vec![traded, d.bid_price, d.ask_price, d.bid_vol, d.ask_vol, d.bid_price_levels[0].0, d.bid_price_levels[0].1, d.ask_price_levels[0].0, d.ask_price_levels[0].1]
}
fn doc_level2(env: &Env, traded: u32) -> Vec<u32> {
    let d = env.level_2_data();
    let mut v = vec![traded, d.bid_price, d.ask_price, d.bid_vol, d.ask_vol];
    for i in 0..10 {
        v.push(d.bid_price_levels[i].0);
        v.push(d.bid_price_levels[i].1);
        v.push(d.ask_price_levels[i].0);
        v.push(d.ask_price_levels[i].1);
    }
    v
}
fn is_asym(env: &Env) -> bool {
    let d = env.level_2_data();
    d.bid_vol != d.ask_vol && d.bid_price_levels[0] != d.ask_price_levels[0] && d.bid_vol > 0 && d.ask_vol > 0
}
fn market_data_expect(env: &Env, traded: &[u32]) -> Value {
    let h = env.get_level_2_data_history();
    let mut m = serde_json::Map::new();
    m.insert("bid_price".into(), json!(h.prices.0));
    m.insert("ask_price".into(), json!(h.prices.1));
    m.insert("bid_vol".into(), json!(h.volumes.0));
    m.insert("ask_vol".into(), json!(h.volumes.1));
    m.insert("trade_vol".into(), json!(traded));
    for i in 0..10 {
        m.insert(format!("bid_vol_{}", i), json!(h.volumes_at_levels.0[i]));
        m.insert(format!("ask_vol_{}", i), json!(h.volumes_at_levels.1[i]));
        m.insert(format!("n_bid_{}", i), json!(h.orders_at_levels.0[i]));
        m.insert(format!("n_ask_{}", i), json!(h.orders_at_levels.1[i]));
    }
    let keys: Vec<String> = m.keys().cloned().collect();
    json!({"keys": keys, "v": Value::Object(m)})
}

pub struct LayoutStats {
    pub bottom_of_range_scripts: usize,
    pub top_of_range_scripts: usize,
    pub reads_before_first_step: usize,
    pub reads_between_submission_and_step: usize,
    pub repeated_reads_within_a_step: usize,
    pub tiny_step_scripts: usize,
    pub coarse_grid_scripts: usize,
    pub quiet_steps: usize,
    pub steps_that_traded: usize,
    pub states: usize,
    pub asym_states: usize,
    pub keys: Vec<u64>,
}

/// C19: scripts whose calls return arrays / dictionaries / tuples of arrays.
pub fn gen_layout_script(id: usize, rng: &mut Sm, numpy_env: bool, st: &mut LayoutStats) -> Value {
    // one script in thirty on a coarse grid: a tick so large that the whole price range holds about as many grid prices as
    // the ten levels the arrays publish (9 * tick still fits into the price type)
    let coarse = rng.chance(0.08);
    let tick = if coarse { rng.range((1u64 << 32) / 13, (u32::MAX as u64) / 9) as u32 } else { rng.range(1, 10) as u32 };
    let t0 = rng.below(1000);
    // one script in sixteen runs with a degenerate step size (0, 1 or 2 time units per step) and at most max(step_size, 1)
    // instructions per step, so that every time-stamp stays inside its step and the clock never moves backwards
    let tiny = rng.chance(0.06);
    let step_size = if tiny { rng.below(3) } else { *rng.pick(&[64u64, 1000]) };
    if tiny {
        st.tiny_step_scripts += 1;
    }
    let mut marks: Vec<usize> = Vec::new();
    let seed = rng.next() >> 8;
    let mut env: Env = Env::new(t0, tick, step_size, true);
    let mut xr = Xoroshiro128StarStar::seed_from_u64(seed);
    // a tenth of the scripts live at the very bottom of the price range: bids reach price 0, so that the level walk
    // below the touch runs out of prices
    let bottom = !coarse && rng.chance(0.1);
    if bottom {
        st.bottom_of_range_scripts += 1;
    }
    // ... and a tenth at the very top (prices above 2^31, asks up to the largest grid price)
    let top = !bottom && !coarse && rng.chance(0.11);
    if top {
        st.top_of_range_scripts += 1;
    }
    // half of the top-of-range scripts whose tick divides 2^32-1 keep an ask resting at exactly 2^32-1 (the value that also
    // stands for "no ask"), a few ticks above the other asks, so that it shows up at one of the deeper published levels
    let max_ask = top && (u32::MAX % tick == 0) && rng.chance(0.5);
    let top_k = u32::MAX as u64 / tick as u64;
    let coarse_max_k = (u32::MAX as u64 - 1) / tick as u64;
    if coarse {
        st.coarse_grid_scripts += 1;
    }
    // (coarse grids: the centre may sit on or above the highest grid price, so that bids reach the top of the range and asks have no room)
    let center = if coarse { if rng.chance(0.4) { coarse_max_k + rng.below(2) } else { rng.range(1, coarse_max_k + 1) } } else if bottom { rng.range(1, 11) } else if max_ask { top_k - rng.range(3, 9) } else if top { (u32::MAX as u64 - 1) / tick as u64 - rng.range(12, 40) } else { rng.range(50, 3000) };
    let mut calls: Vec<Value> = Vec::new();
    let n_steps = rng.range(2, 12);
    let mut reenable = false;
    let layout = |m: &str, v: Vec<u32>, asym: bool| -> Value { json!({"m": m, "args": [], "kwargs": {}, "expect": {"v": v}, "layout": true, "asym": asym}) };
    // the arrays of a freshly constructed environment (no step yet) describe the empty book
    if rng.chance(0.5) {
        st.reads_before_first_step += 1;
        if numpy_env {
            calls.push(layout("level_1_data", doc_level1(&env, 0), false));
            calls.push(layout("level_2_data", doc_level2(&env, 0), false));
        } else {
            calls.push(layout("level_1_data_array", doc_level1(&env, 0), false));
            calls.push(layout("level_2_data_array", doc_level2(&env, 0), false));
        }
    }
    for step_no in 0..n_steps {
        // a fifth of the steps (never the first) are quiet: nothing at all is submitted, so the step runs on an empty queue
        let quiet = step_no > 0 && rng.chance(0.2);
        if quiet {
            st.quiet_steps += 1;
        }
        // asymmetric by construction: different counts and volumes on the two sides, several levels
        let ladder = !quiet && !tiny && rng.chance(0.25);
        let budget = (step_size as usize).max(1); // tiny scripts: instructions per step (all time-stamps stay inside the step)
        let nb = if quiet { 0 } else if ladder { 12 } else if tiny { rng.range(0, budget as u64) as usize } else { rng.range(0, 7) as usize };
        let na = if quiet { 0 } else if ladder { 12 } else if tiny { budget - nb - if nb < budget && rng.chance(0.3) { 1 } else { 0 } } else { rng.range(0, 7) as usize };
        let mut sides = Vec::new();
        let mut vols = Vec::new();
        let mut traders = Vec::new();
        let mut prices = Vec::new();
        for k in 0..(nb + na) {
            let bid = k < nb || (coarse && center + 1 > coarse_max_k); // no room above the centre on a coarse grid: bids only
            let lo_off = if rng.chance(0.15) { 0 } else { 1 };
            // ladders populate every level 1..12 on both sides, so the deepest published levels are non-empty
            let off = if ladder { 1 + (if bid { k } else { k - nb }) as u64 } else { rng.range(lo_off, 12) };
            let off = if bid { off.min(center).max(if coarse { center.saturating_sub(coarse_max_k) } else { 0 }) } else if max_ask { off.min(top_k - center) } else if coarse { off.min(coarse_max_k.saturating_sub(center)) } else { off };
            let p = if bid { center - off } else { center + off } * tick as u64;
            sides.push(bid);
            vols.push(rng.range(1, if bid { 40 } else { 90 }) as u32);
            traders.push(rng.below(50) as u32);
            prices.push(if tick > 1 && rng.chance(0.03) { (p as u32).checked_add(1).unwrap_or_else(|| p as u32 - 1) } else { p as u32 });
        }
        // cancels of active orders
        let act: Vec<usize> = env.get_orders().iter().filter(|o| o.status == bourse_book::types::Status::Active).map(|o| o.order_id).collect();
        let n_cancel = if act.is_empty() || quiet { 0 } else if tiny { (budget - nb - na).min(1) } else { rng.below(3.min(act.len() as u64 + 1)) as usize };
        let cancels: Vec<usize> = (0..n_cancel).map(|_| *rng.pick(&act)).collect();
        if quiet {
        } else if numpy_env {
            if rng.chance(0.5) {
                // submit_limit_orders + submit_cancellations
                let mut ids = Vec::new();
                let mut err = false;
                for k in 0..sides.len() {
                    match env.place_order(side_of(sides[k]), vols[k], traders[k], Some(prices[k])) {
                        Ok(i) => ids.push(i),
                        Err(_) => {
                            err = true;
                            break;
                        }
                    }
                }
                let arg = json!({"tuple": [{"np": "bool", "data": sides}, {"np": "uint32", "data": vols}, {"np": "uint32", "data": traders}, {"np": "uint32", "data": prices}]});
                calls.push(call("submit_limit_orders", json!([arg]), json!({}), if err { json!({"exc": "ValueError"}) } else { json!({"v": ids}) }));
                for c in &cancels {
                    env.cancel_order(*c);
                }
                calls.push(call("submit_cancellations", json!([{"np": "uint64", "data": cancels}]), json!({}), json!({"v": null})));
            } else {
                // submit_instructions: 0 null, 1 new, 2 cancel, other values ignored
                let mut action = Vec::new();
                let (mut s2, mut v2, mut t2, mut p2, mut o2) = (Vec::new(), Vec::new(), Vec::new(), Vec::new(), Vec::new());
                let mut k = 0;
                let mut c = 0;
                while k < sides.len() || c < cancels.len() {
                    let r = rng.below(10);
                    if r < 6 && k < sides.len() {
                        action.push(1u32);
                        s2.push(sides[k]);
                        v2.push(vols[k]);
                        t2.push(traders[k]);
                        p2.push(prices[k]);
                        o2.push(0usize);
                        k += 1;
                    } else if r < 8 && c < cancels.len() {
                        action.push(2);
                        s2.push(false);
                        v2.push(0);
                        t2.push(0);
                        p2.push(0);
                        o2.push(cancels[c]);
                        c += 1;
                    } else {
                        action.push(if r == 9 { 7 } else { 0 });
                        s2.push(true);
                        v2.push(1);
                        t2.push(1);
                        p2.push(3);
                        o2.push(0);
                    }
                }
                let mut ids: Vec<u64> = Vec::new();
                let mut err = false;
                for i in 0..action.len() {
                    match action[i] {
                        1 => match env.place_order(side_of(s2[i]), v2[i], t2[i], Some(p2[i])) {
                            Ok(x) => ids.push(x as u64),
                            Err(_) => {
                                err = true;
                                break;
                            }
                        },
                        2 => {
                            env.cancel_order(o2[i]);
                            ids.push(u64::MAX)
                        }
                        _ => ids.push(u64::MAX),
                    }
                }
                let arg = json!({"tuple": [{"np": "uint32", "data": action}, {"np": "bool", "data": s2}, {"np": "uint32", "data": v2}, {"np": "uint32", "data": t2}, {"np": "uint32", "data": p2}, {"np": "uint64", "data": o2}]});
                calls.push(call("submit_instructions", json!([arg]), json!({}), if err { json!({"exc": "ValueError"}) } else { json!({"v": ids}) }));
            }
        } else {
            for k in 0..sides.len() {
                match env.place_order(side_of(sides[k]), vols[k], traders[k], Some(prices[k])) {
                    Ok(i) => calls.push(call("place_order", json!([sides[k], vols[k], traders[k]]), json!({"price": prices[k]}), json!({"v": i}))),
                    Err(_) => calls.push(call("place_order", json!([sides[k], vols[k], traders[k]]), json!({"price": prices[k]}), json!({"exc": "ValueError"}))),
                }
            }
            for c in &cancels {
                env.cancel_order(*c);
                calls.push(call("cancel_order", json!([c]), json!({}), json!({"v": null})));
            }
            if !tiny && rng.chance(0.3) {
                let vol = rng.range(1, 60) as u32;
                let bid = rng.chance(0.5);
                let i = env.place_order(side_of(bid), vol, 9, None).unwrap();
                calls.push(call("place_order", json!([bid, vol, 9]), json!({}), json!({"v": i})));
            }
            if !tiny && rng.chance(0.1) {
                // a market order in a no-trading step ends Rejected (status 4)
                env.disable_trading();
                calls.push(call("disable_trading", json!([]), json!({}), json!({"v": null})));
                let i = env.place_order(side_of(true), 7, 9, None).unwrap();
                calls.push(call("place_order", json!([true, 7, 9]), json!({}), json!({"v": i})));
                reenable = true;
            }
        }
        if rng.chance(0.25) {
            // between the submissions and the step the arrays still describe the end of the previous step
            st.reads_between_submission_and_step += 1;
            let tr = traded_steps(&env, t0, step_size, &marks);
            let lt = *tr.last().unwrap_or(&0);
            let asym = is_asym(&env);
            if numpy_env {
                calls.push(layout("level_2_data", doc_level2(&env, lt), asym));
            } else {
                calls.push(layout("level_2_data_array", doc_level2(&env, lt), asym));
            }
        }
        env.step(&mut xr);
        marks.push(env.get_trades().len());
        calls.push(call("step", json!([]), json!({}), json!({"v": null})));
        if reenable {
            env.enable_trading();
            calls.push(call("enable_trading", json!([]), json!({}), json!({"v": null})));
            reenable = false;
        }
        let asym = is_asym(&env);
        let traded = traded_steps(&env, t0, step_size, &marks);
        let last_traded = *traded.last().unwrap_or(&0);
        if last_traded > 0 {
            st.steps_that_traded += 1;
        }
        st.states += 1;
        if asym {
            st.asym_states += 1;
            let mut h = Fnv::new();
            h.bytes(format!("{:?}{}", doc_level2(&env, last_traded), numpy_env).as_bytes());
            st.keys.push(h.finish());
        }
        if numpy_env {
            calls.push(layout("level_1_data", doc_level1(&env, last_traded), asym));
            calls.push(layout("level_2_data", doc_level2(&env, last_traded), asym));
        } else {
            calls.push(layout("level_1_data_array", doc_level1(&env, last_traded), asym));
            calls.push(layout("level_2_data_array", doc_level2(&env, last_traded), asym));
        }
        if rng.chance(0.4) {
            // the same arrays requested again within the step (the executor overwrites a third of the values it was handed
            // back, in place: what a later call returns must not depend on what the caller did with an earlier result)
            st.repeated_reads_within_a_step += 1;
            let (l2, l1) = if numpy_env { ("level_2_data", "level_1_data") } else { ("level_2_data_array", "level_1_data_array") };
            calls.push(layout(l2, doc_level2(&env, last_traded), asym));
            calls.push(layout(l1, doc_level1(&env, last_traded), asym));
            calls.push(layout(l2, doc_level2(&env, last_traded), asym));
        }
    }
    let traded = traded_steps(&env, t0, step_size, &marks);
    calls.push(json!({"m": "get_market_data", "args": [], "kwargs": {}, "expect": market_data_expect(&env, &traded)}));
    if !numpy_env {
        // one order left unplaced (status New) for the data-frame helpers
        let far = ((center + 20).min((u32::MAX as u64 - 1) / tick as u64) * tick as u64) as u32;
        let i = env.place_order(side_of(false), 3, 2, Some(far)).unwrap();
        calls.push(call("place_order", json!([false, 3, 2]), json!({"price": far}), json!({"v": i})));
        let h = env.get_level_2_data_history();
        calls.push(call("get_prices", json!([]), json!({}), json!({"v": [h.prices.0, h.prices.1]})));
        calls.push(call("get_volumes", json!([]), json!({}), json!({"v": [h.volumes.0, h.volumes.1]})));
        calls.push(call("get_touch_volumes", json!([]), json!({}), json!({"v": [h.volumes_at_levels.0[0], h.volumes_at_levels.1[0]]})));
        calls.push(call("get_touch_order_counts", json!([]), json!({}), json!({"v": [h.orders_at_levels.0[0], h.orders_at_levels.1[0]]})));
        calls.push(call("get_trade_volumes", json!([]), json!({}), json!({"v": traded})));
    }
    calls.push(call("get_orders", json!([]), json!({}), json!({"v": orders_json(env.get_orderbook())})));
    calls.push(call("get_trades", json!([]), json!({}), json!({"v": trades_json(env.get_orderbook())})));
    let _ = l2_of::<10>;
    json!({"id": id, "kind": if numpy_env { "stepenvnumpy" } else { "stepenv" }, "ctor": {"args": [seed, t0, tick, step_size], "kwargs": {}}, "calls": calls, "dataframes": true, "self_oracle": true, "optional_ctor": step_size == 0})
}

/// C19: one level that holds more than 65536 resting orders (order counts beyond 16 bits in arrays, dictionary and
/// history getters), built through StepEnvNumpy.submit_limit_orders in a single call.
pub fn gen_mass_level_script(id: usize, rng: &mut Sm) -> Value {
    let tick = rng.range(1, 10) as u32;
    let t0 = rng.below(1000);
    let n = 66_000 + rng.below(3000) as usize;
    let step_size = n as u64 + 1000;
    let seed = rng.next() >> 8;
    let mut env: Env = Env::new(t0, tick, step_size, true);
    let mut xr = Xoroshiro128StarStar::seed_from_u64(seed);
    let center = rng.range(50, 3000);
    let mut calls: Vec<Value> = Vec::new();
    let layout = |m: &str, v: Vec<u32>| -> Value { json!({"m": m, "args": [], "kwargs": {}, "expect": {"v": v}, "layout": true, "asym": true}) };
    let (mut sides, mut vols, mut traders, mut prices, mut ids) = (Vec::new(), Vec::new(), Vec::new(), Vec::new(), Vec::new());
    for k in 0..n + 40 {
        // n bids at one price (the touch), forty asks spread over a few levels
        let bid = k < n;
        let p = if bid { (center - 1) * tick as u64 } else { (center + 1 + (k as u64 % 5)) * tick as u64 } as u32;
        let v = 1 + (k % 3) as u32;
        ids.push(env.place_order(side_of(bid), v, (k % 50) as u32, Some(p)).unwrap());
        sides.push(bid);
        vols.push(v);
        traders.push((k % 50) as u32);
        prices.push(p);
    }
    let arg = json!({"tuple": [{"np": "bool", "data": sides}, {"np": "uint32", "data": vols}, {"np": "uint32", "data": traders}, {"np": "uint32", "data": prices}]});
    calls.push(call("submit_limit_orders", json!([arg]), json!({}), json!({"v": ids})));
    for _ in 0..2 {
        env.step(&mut xr);
        calls.push(call("step", json!([]), json!({}), json!({"v": null})));
        let tr = traded_per_step(&env, t0, step_size);
        let lt = *tr.last().unwrap_or(&0);
        calls.push(layout("level_1_data", doc_level1(&env, lt)));
        calls.push(layout("level_2_data", doc_level2(&env, lt)));
    }
    let traded = traded_per_step(&env, t0, step_size);
    calls.push(json!({"m": "get_market_data", "args": [], "kwargs": {}, "expect": market_data_expect(&env, &traded)}));
    json!({"id": id, "kind": "stepenvnumpy", "ctor": {"args": [seed, t0, tick, step_size], "kwargs": {}}, "calls": calls, "self_oracle": true})
}

fn run_python(ctx: &Ctx, scripts: &Value) -> Result<Value, String> {
    let py = std::env::var("BVMON_PYTHON").map_err(|_| "BVMON_PYTHON not set (run through ./check)".to_string())?;
    let pkg = std::env::var("BVMON_PYPKG").map_err(|_| "BVMON_PYPKG not set".to_string())?;
    let ph = std::env::var("BVMON_PYHARNESS").map_err(|_| "BVMON_PYHARNESS not set".to_string())?;
    let sp = format!("{}/scripts.json", ctx.scratch);
    let rp = format!("{}/results.json", ctx.scratch);
    std::fs::write(&sp, serde_json::to_string(scripts).unwrap()).map_err(|e| e.to_string())?;
    let out = std::process::Command::new(&py)
        .arg(format!("{}/run_scripts.py", ph))
        .arg(&sp)
        .arg(&rp)
        .env("PYTHONPATH", format!("{}:{}/stubs", pkg, ph))
        .env("PYTHONDONTWRITEBYTECODE", "1")
        .output()
        .map_err(|e| format!("cannot start {}: {}", py, e))?;
    if !out.status.success() {
        return Err(format!("python executor failed ({}): {}", out.status, crate::bookcheck::truncate(&String::from_utf8_lossy(&out.stderr), 1500)));
    }
    let txt = std::fs::read_to_string(&rp).map_err(|e| e.to_string())?;
    serde_json::from_str(&txt).map_err(|e| e.to_string())
}

fn mismatch_violations(prop: &str, res: &Value, class: &str) -> Vec<Violation> {
    let mut v = Vec::new();
    if let Some(ms) = res["mismatches"].as_array() {
        for m in ms {
            let meth = m["m"].as_str().unwrap_or("?");
            let what = m["what"].as_str().unwrap_or("");
            let what_class: String = what.chars().filter(|c| !c.is_ascii_digit()).collect::<String>().split(" holds").next().unwrap_or("").trim().replace(' ', "_");
            v.push(Violation {
                signature: format!("{}:{}:{}:{}", prop, class, meth, what_class),
                summary: format!("Python {}: {} — expected {} got {}", meth, what, crate::bookcheck::truncate(&m["expected"].to_string(), 300), crate::bookcheck::truncate(&m["got"].to_string(), 300)),
                replay: json!({"kind": "python", "property": prop, "mismatch": m}),
            });
        }
    }
    v
}

/// Writes `n` mixed C18/C19 scripts (with expectations) to `path`: input of the valgrind supplementary screen.
pub fn write_scripts(seed: u64, n: usize, path: &str) -> i32 {
    if std::env::var("BVMON_C18_SCRIPTS").is_ok() {
        // exactly the scripts `c18` generates for this seed (debugging aid)
        let mut rng = Sm::derive(seed, 0xC18);
        let scratch = std::env::var("BVMON_SCRATCH").unwrap_or_else(|_| "/tmp".into());
        let scripts: Vec<Value> = (0..n).map(|i| if i % 2 == 0 { gen_orderbook_script(i, &mut rng, 150, &scratch).script } else { gen_stepenv_script(i, &mut rng, 150).script }).collect();
        return match std::fs::write(path, serde_json::to_string(&json!({"scripts": scripts, "doc_tables": false})).unwrap()) {
            Ok(()) => 0,
            Err(_) => 2,
        };
    }
    let mut rng = Sm::derive(seed, 0xE87A);
    let scratch = std::env::var("BVMON_SCRATCH").unwrap_or_else(|_| "/tmp".into());
    std::fs::create_dir_all(&scratch).ok();
    let mut scripts = Vec::new();
    let mut st = LayoutStats { bottom_of_range_scripts: 0, top_of_range_scripts: 0, reads_before_first_step: 0, reads_between_submission_and_step: 0, repeated_reads_within_a_step: 0, tiny_step_scripts: 0, coarse_grid_scripts: 0, quiet_steps: 0, steps_that_traded: 0, states: 0, asym_states: 0, keys: Vec::new() };
    for i in 0..n {
        match i % 4 {
            0 => scripts.push(gen_orderbook_script(i, &mut rng, 60, &scratch).script),
            1 => scripts.push(gen_stepenv_script(i, &mut rng, 60).script),
            2 => scripts.push(gen_layout_script(i, &mut rng, false, &mut st)),
            _ => scripts.push(gen_layout_script(i, &mut rng, true, &mut st)),
        }
    }
    match std::fs::write(path, serde_json::to_string(&json!({"scripts": scripts, "doc_tables": true})).unwrap()) {
        Ok(()) => 0,
        Err(e) => {
            eprintln!("cannot write {}: {}", path, e);
            2
        }
    }
}

pub fn c18(ctx: &Ctx) -> i32 {
    let n_scripts = ctx.tier.pick(1500, 20_000);
    let n_calls = 150;
    let mut rng = Sm::derive(ctx.seed, 0xC18);
    let mut scripts = Vec::new();
    let mut snaps: Vec<(String, Obs)> = Vec::new();
    let (mut calls, mut excs, mut traded, mut with_exc) = (0usize, 0usize, 0usize, 0usize);
    let mut d = Distinct::new(1_000_000);
    let mut sample = None;
    for i in 0..n_scripts {
        let g = if i % 2 == 0 { gen_orderbook_script(i, &mut rng, n_calls, &ctx.scratch) } else { gen_stepenv_script(i, &mut rng, n_calls) };
        calls += g.n_calls;
        excs += g.n_exc;
        if g.n_trades > 0 && g.n_exc > 0 {
            let mut h = Fnv::new();
            h.bytes(g.script.to_string().as_bytes());
            d.add(h.finish());
        }
        if g.n_trades > 0 {
            traded += 1;
        }
        if g.n_exc > 0 {
            with_exc += 1;
        }
        if sample.is_none() && g.n_trades > 0 {
            let mut s = g.script.clone();
            if let Some(c) = s["calls"].as_array_mut() {
                c.truncate(25);
            }
            sample = Some(s);
        }
        snaps.extend(g.py_snapshots);
        scripts.push(g.script);
    }
    let res = run_python(ctx, &json!({"scripts": scripts, "doc_tables": false}));
    let mut violations = Vec::new();
    let mut inconclusive = None;
    let mut executed = 0u64;
    let mut py_exc = 0u64;
    let mut cross_rs = 0u64;
    match &res {
        Err(e) => inconclusive = Some(e.clone()),
        Ok(r) => {
            executed = r["executed"].as_u64().unwrap_or(0);
            py_exc = r["exceptions"].as_u64().unwrap_or(0);
            violations = mismatch_violations("C18", r, "python");
            if let Some(errs) = r["errors"].as_array() {
                if !errs.is_empty() {
                    inconclusive = Some(format!("python executor errors: {}", crate::bookcheck::truncate(&errs[0].to_string(), 600)));
                }
            }
            // snapshots written from Python must load in the Rust core to the same book
            if violations.is_empty() {
                for (path, obs) in &snaps {
                    if !std::path::Path::new(path).exists() {
                        continue; // script stopped earlier
                    }
                    cross_rs += 1;
                    match OrderBook::<10>::load_json(path) {
                        Ok(b) => {
                            let o = b.obs();
                            if o != *obs {
                                violations.push(Violation { signature: "C18:python:snapshot_from_python_differs_in_rust".into(), summary: format!("snapshot written by Python loads to a different book in Rust: {}", crate::ops::obs_diff(obs, &o)), replay: json!({"kind": "python", "property": "C18", "path": path}) });
                                break;
                            }
                        }
                        Err(e) => {
                            violations.push(Violation { signature: "C18:python:snapshot_from_python_rejected_by_rust".into(), summary: format!("snapshot written by Python does not load in Rust: {}", e), replay: json!({"kind": "python", "property": "C18", "path": path}) });
                            break;
                        }
                    }
                }
            }
        }
    }
    // scripts whose second opinion could not be settled (too many instructions without a visible time-stamp): tolerated in
    // small numbers next to the scripts that were settled, otherwise the run says nothing
    if let Ok(r) = &res {
        let uns = r["alt_unsettled_scripts"].as_u64().unwrap_or(0);
        let alt = r["alt_schedule_scripts"].as_u64().unwrap_or(0);
        if uns > 3u64.max(alt / 10) && violations.is_empty() && inconclusive.is_none() {
            inconclusive = Some(format!("{} StepEnv scripts differ from the Rust twin and their schedules could not be settled ({} could)", uns, alt));
        }
    }
    if inconclusive.is_none() {
        let executed_floor = if res.as_ref().map(|r| r["alt_schedule_scripts"].as_u64().unwrap_or(0) > 0).unwrap_or(false) { (calls as u64) / 3 } else { (calls as u64) * 9 / 10 };
        inconclusive = floors(&[("python_calls_executed", executed, executed_floor), ("exceptions_observed", py_exc, 200), ("snapshots_python_to_rust", cross_rs, 50), ("scripts_that_traded", traded as u64, 100)]);
        if !violations.is_empty() {
            inconclusive = None;
        }
    }
    let cov = json!({
        "evaluations": executed,
        "distinct_nontrivial": d.len(),
        "rule": "cases = Python calls executed on the real compiled extension under CPython (scripts of ~150 calls over the non-numpy API of bourse.core.OrderBook and bourse.core.StepEnv: place/cancel/modify/set_time/toggles/step/all getters and properties/snapshots, in-range, off-grid and out-of-range arguments), each compared with the value the Rust core (bourse_book / bourse_de driven by the same call sequence and seed) yields; off-grid -> ValueError, out-of-range -> OverflowError, both followed by get_orders/get_trades/bid_ask to show the object is unchanged; snapshots cross-loaded both ways; a StepEnv script whose values differ from the twin's gets a second opinion before it is reported: replayed on two objects (determinism), each step's processing order inferred from the time-stamps and reproduced on a plain Python OrderBook, every scripted getter recomputed from the object's own orders and trades; scripts that pass follow another valid schedule (another generator in the binding) and are only reported if, over all their steps, the last time slot of the batch is used significantly more or less often than a uniform shuffle of the whole batch allows (Hoeffding, 1e-9): that is the trace of instructions dropped, added or re-ordered before the shuffle; distinct = distinct scripts; non-trivial = the script traded and raised at least one exception",
        "samples": [sample],
        "scripts": n_scripts,
        "calls_generated": calls,
        "exceptions_expected": excs,
        "exceptions_observed": py_exc,
        "scripts_that_traded": traded,
        "stepenv_scripts_on_another_valid_schedule_than_the_twin": res.as_ref().map(|r| r["alt_schedule_scripts"].clone()).unwrap_or(Value::Null),
        "stepenv_scripts_whose_schedule_could_not_be_settled": res.as_ref().map(|r| r["alt_unsettled_scripts"].clone()).unwrap_or(Value::Null),
        "last_slot_test_over_those_scripts": res.as_ref().map(|r| r["alt_schedule_last_slot"].clone()).unwrap_or(Value::Null),
        "scripts_with_exceptions": with_exc,
        "returned_values_overwritten_by_the_caller": res.as_ref().map(|r| r["returns_overwritten_by_caller"].clone()).unwrap_or(Value::Null),
        "snapshots_python_to_rust": cross_rs,
        "python": res.as_ref().ok().map(|r| r["python"].clone()),
        "numpy": res.as_ref().ok().map(|r| r["numpy"].clone()),
    });
    ctx.finish("exploration", cov, vec!["CPython 3.11 of the tooling venv (python3-vt) with numpy; extension built from /repo's working tree by ./check".into(), "valid call sequences: ids refer to existing orders, volumes >= 1".into()], violations, inconclusive)
}

pub fn c19(ctx: &Ctx) -> i32 {
    let n_scripts = ctx.tier.pick(2000, 25_000);
    let mut rng = Sm::derive(ctx.seed, 0xC19);
    let mut scripts = Vec::new();
    let mut st = LayoutStats { bottom_of_range_scripts: 0, top_of_range_scripts: 0, reads_before_first_step: 0, reads_between_submission_and_step: 0, repeated_reads_within_a_step: 0, tiny_step_scripts: 0, coarse_grid_scripts: 0, quiet_steps: 0, steps_that_traded: 0, states: 0, asym_states: 0, keys: Vec::new() };
    // the generator drives the Rust core (bourse_de::Env) with the same valid call sequence to obtain the Rust-side values: a
    // panic of the core there is an observed abort on a valid history, reported as such (never a harness crash)
    let mut core_aborts: Vec<String> = Vec::new();
    for i in 0..n_scripts {
        match crate::util::catch(|| gen_layout_script(i, &mut rng, i % 2 == 1, &mut st)) {
            Ok(sc) => scripts.push(sc),
            Err(p) => {
                if core_aborts.len() < 3 {
                    core_aborts.push(format!("script {}: {}", i, p));
                }
            }
        }
    }
    // plus levels holding more than 2^16 orders
    let n_mass = ctx.tier.pick(1, 4);
    for k in 0..n_mass {
        scripts.push(gen_mass_level_script(n_scripts + k, &mut rng));
    }
    let sample = {
        let mut s = scripts[1].clone();
        if let Some(c) = s["calls"].as_array_mut() {
            c.truncate(8);
        }
        s
    };
    let res = run_python(ctx, &json!({"scripts": scripts, "doc_tables": true}));
    let mut violations = Vec::new();
    for a in &core_aborts {
        violations.push(Violation { signature: "C19:abort:core_panicked_on_a_valid_script".into(), summary: format!("the Rust core panicked while it was driven with a valid C19 call sequence: {}", crate::bookcheck::truncate(a, 600)), replay: json!({"kind": "python", "property": "C19", "detail": a}) });
    }
    let mut inconclusive = None;
    let mut r = json!({});
    match res {
        Err(e) => inconclusive = Some(e),
        Ok(x) => {
            r = x;
            violations.extend(mismatch_violations("C19", &r, "layout"));
            if let Some(p) = r["doc"]["problems"].as_array() {
                if !p.is_empty() && violations.is_empty() {
                    inconclusive = Some(format!("the documentation tables changed: {}", crate::bookcheck::truncate(&p[0].to_string(), 500)));
                }
            }
            if let Some(errs) = r["errors"].as_array() {
                if !errs.is_empty() && violations.is_empty() {
                    inconclusive = Some(format!("python executor errors: {}", crate::bookcheck::truncate(&errs[0].to_string(), 600)));
                }
            }
        }
    }
    let mut d = Distinct::new(2_000_000);
    for k in &st.keys {
        d.add(*k);
    }
    if inconclusive.is_none() && violations.is_empty() {
        inconclusive = floors(&[
            ("layout_checks", r["layout_checks"].as_u64().unwrap_or(0), 2000),
            ("asymmetric_layout_checks", r["asymmetric_layout_checks"].as_u64().unwrap_or(0), 1000),
            ("dict_checks", r["dict_checks"].as_u64().unwrap_or(0), 200),
            ("dataframe_checks", r["dataframe_checks"].as_u64().unwrap_or(0), 200),
            ("self_oracle_checks", r["self_oracle_checks"].as_u64().unwrap_or(0), 2000),
            ("quiet_steps", st.quiet_steps as u64, 200),
            ("reads_before_first_step", st.reads_before_first_step as u64, 200),
            ("steps_that_traded", st.steps_that_traded as u64, 200),
        ]);
    }
    let cov = json!({
        "evaluations": r["executed"].as_u64().unwrap_or(0),
        "distinct_nontrivial": d.len(),
        "rule": "cases = Python calls on StepEnv and StepEnvNumpy executed on the real extension with numpy: after each step of a random asymmetric book (different counts, volumes and levels on the two sides) all four array-returning methods are compared element by element with the documented layout (traded volume, bid price, ask price, bid volume, ask volume, then per level bid volume, bid count, ask volume, ask count; lengths 9 and 45) filled from the Rust core, the traded volume of a step recomputed from the trade log (trades stamped inside the step) rather than read from the environment's counter; a fifth of the steps submit nothing at all; arrays are also read on the freshly constructed environment and between submissions and the step; every array, dictionary series and history getter is judged against the documented quantities recomputed from get_orders()/get_trades() of the same Python object (so the verdict does not depend on the object following the Rust twin's shuffle) and, while the states coincide, also against the Rust twin; get_market_data must have exactly the 45 documented keys, each bound to the matching recorded series; history getters; both data-frame helpers are run against a stub pandas and every column must be named after (and hold) its field; the documented index tables are parsed from the live docstrings, each row is mapped to the quantity it names (side, price/volume/count, touch/total/level) and the arrays are judged against that documented layout, so a reworded table still decides and a table that assigns another quantity to an index makes the unchanged code a violation; distinct = distinct asymmetric (state, environment class) pairs; non-trivial = bid and ask totals and touch records differ",
        "samples": [sample],
        "scripts": n_scripts,
        "states": st.states,
        "asymmetric_states": st.asym_states,
        "quiet_steps_with_empty_queue": st.quiet_steps,
        "bottom_of_range_scripts": st.bottom_of_range_scripts,
        "scripts_with_a_level_of_more_than_65536_orders": n_mass,
        "top_of_range_scripts": st.top_of_range_scripts,
        "reads_before_first_step": st.reads_before_first_step,
        "reads_between_submission_and_step": st.reads_between_submission_and_step,
        "steps_that_traded": st.steps_that_traded,
        "layout_checks": r["layout_checks"],
        "asymmetric_layout_checks": r["asymmetric_layout_checks"],
        "dict_checks": r["dict_checks"],
        "dataframe_checks": r["dataframe_checks"],
        "self_oracle_checks": r["self_oracle_checks"],
        "repeated_reads_within_a_step": st.repeated_reads_within_a_step,
        "scripts_with_step_size_0_1_or_2": st.tiny_step_scripts,
        "coarse_grid_scripts": st.coarse_grid_scripts,
        "returned_values_overwritten_by_the_caller": r["returns_overwritten_by_caller"],
        "scripts_whose_state_left_the_rust_twin": r["twin_divergences"],
        "doc_tables": r["doc"],
        "numpy": r["numpy"],
    });
    ctx.finish("exploration", cov, vec!["decided dynamically: numpy is available in the tooling venv and the extension works with it".into(), "pandas is not installed: the data-frame helpers run against a small stub that records from_records(columns=...) and .map".into()], violations, inconclusive)
}

#[allow(unused)]
fn _unused(e: &Env) {
    let _ = (conv_order, conv_trade);
    let _ = <Env as SimEnv>::ASSETS;
    let _ = e;
}
