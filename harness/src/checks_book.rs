//! Book-level checks C01–C07, C12, C13 (single `OrderBook`).

use crate::bookcheck::*;
use crate::gen::{ExhCfg, Profile};
use crate::ops::*;
use crate::report::{floors, Ctx, Tier};
use serde_json::json;

const ADV01: [u64; 2] = [0, 1];
const ADV1: [u64; 1] = [1];

fn exh(depth: usize, advances: &'static [u64], modifies: bool, toggle: bool) -> ExhCfg {
    ExhCfg { depth, advances, modifies, toggle, redundant_place: false, prices: [100, 101, 102], vols: [1, 2], tick: 1, levels: 3, creates: false, t0: 10 }
}

/// alphabet that also enumerates limit orders created but not placed (status New), placed later by `Place(k)`
fn exh_new(depth: usize, advances: &'static [u64], modifies: bool, toggle: bool, t0: u64) -> ExhCfg {
    let mut e = exh(depth, advances, modifies, toggle);
    e.creates = true;
    e.t0 = t0;
    e
}

/// Mass sweeps for C01 / C02 / C05 (see extra.rs): returns (resting orders swept, violations)
pub fn mass_sweeps(ctx: &Ctx, prop: &str, sizes: &[usize], tied: bool, only: &[&str]) -> (u64, Vec<crate::report::Violation>) {
    use std::sync::Mutex;
    let acc: Mutex<(u64, Vec<crate::report::Violation>)> = Mutex::new((0, Vec::new()));
    std::thread::scope(|s| {
        for (k, n) in sizes.iter().enumerate() {
            let acc = &acc;
            s.spawn(move || {
                crate::util::install_quiet_panic_hook();
                let seed = crate::util::Sm::derive(ctx.seed, 0x5357_00 + k as u64).next();
                let r = crate::util::catch(|| crate::extra::mass_sweep::<bourse_book::OrderBook<5>>(seed, *n, tied)).unwrap_or_else(|p| Err(("panic_in_sweep".into(), p)));
                let mut a = acc.lock().unwrap();
                match r {
                    Ok(x) => a.0 += x,
                    Err((kind, detail)) => {
                        if kind != "harness" && (only.is_empty() || only.contains(&kind.as_str()) || kind == "panic_in_sweep") {
                            a.1.push(crate::report::Violation { signature: format!("{}:sweep:{}", prop, kind), summary: format!("mass sweep of {} resting orders ({}): {} - {}", n, if tied { "all queued at one time-stamp" } else { "one clock tick apart" }, kind, truncate(&detail, 500)), replay: json!({"kind": "mass_sweep", "property": prop, "seed": seed, "n": n, "tied": tied}) });
                        }
                    }
                }
            });
        }
    });
    acc.into_inner().unwrap()
}

pub fn valid_history_assumptions() -> Vec<String> {
    vec![
        "valid histories only: ids refer to existing orders, order and modify volumes >= 1, limit prices on the tick grid and strictly between 0 and 2^32-1, per-side resting volume and cumulative traded volume < 2^32, clock never moved backwards (enforced by the generators)".into(),
        "harness built with overflow-checks and debug-assertions on, so silent wrap-around inside bourse becomes an observable panic".into(),
        "bounded-exhaustive claims are exhaustive only for the stated alphabet and depth; beyond that the claim is 'held on the sampled histories'".into(),
    ]
}

// ------------------------------------------------------------------------------------------------

pub fn c01(ctx: &Ctx) -> i32 {
    let mut rnd = Profile::c01();
    rnd.ops = (150, 250);
    rnd.w_modify = 7; // "an incoming (or re-priced) order": re-pricing reaches the same matching path
    rnd.w_create = 10;
    rnd.w_place = 12;
    let mut rnd_deep = Profile::c01();
    rnd_deep.ops = (300, 600);
    rnd_deep.p_market = 0.08;
    let spec = BookSpec {
        check: "c01",
        mons: M_REF,
        policy: TiePolicy::StopOnTie,
        exh: match ctx.tier {
            Tier::Quick => vec![exh(4, &ADV01, false, false), exh(5, &ADV1, false, false), exh_new(3, &ADV01, false, false, 0), exh_new(4, &ADV1, false, false, 0)],
            Tier::Thorough => vec![exh(5, &ADV01, false, false), exh(6, &ADV1, false, false), { let mut e = exh(5, &ADV1, false, false); e.tick = 5; e.prices = [500, 505, 510]; e }, exh_new(4, &ADV01, false, false, 0), exh_new(5, &ADV1, false, false, 0)],
        },
        rnd: vec![(rnd, ctx.tier.pick(60_000, 800_000)), (rnd_deep, ctx.tier.pick(6000, 100_000))],
        nontrivial: |c| c.trades > 0 && c.tie_insertions == 0,
        nontrivial_rule: "the history is clock-disciplined (no tie insertion) and produced at least one trade",
    };
    let mut out = run_book_spec(ctx, &spec);
    // long histories: ids, trade log and counters beyond 2^16 on one book, judged at checkpoints (see extra.rs)
    let n_long = ctx.tier.pick(16usize, 96usize);
    let long_ops = ctx.tier.pick(110_000usize, 400_000usize);
    let long = {
        use std::sync::atomic::{AtomicUsize, Ordering};
        use std::sync::Mutex;
        let next = AtomicUsize::new(0);
        let acc: Mutex<(u64, u64, u64, u64, u64, Vec<crate::report::Violation>)> = Mutex::new((0, 0, 0, 0, 0, Vec::new()));
        std::thread::scope(|s| {
            for _ in 0..ctx.threads.max(1) {
                s.spawn(|| {
                    crate::util::install_quiet_panic_hook();
                    loop {
                        let k = next.fetch_add(1, Ordering::Relaxed);
                        if k >= n_long {
                            break;
                        }
                        let seed = crate::util::Sm::derive(ctx.seed, 0x10_0000 + k as u64).next();
                        let r = crate::util::catch(|| crate::extra::long_history::<bourse_book::OrderBook<10>>(seed, long_ops)).unwrap_or_else(|p| Err(format!("panic: {}", p)));
                        let mut a = acc.lock().unwrap();
                        match r {
                            Ok(o) => {
                                a.0 += o.ops;
                                a.1 += o.orders;
                                a.2 += o.trades;
                                a.3 += o.checkpoints;
                                a.4 = a.4.max(o.orders);
                            }
                            Err(e) => {
                                if a.5.len() < 2 {
                                    a.5.push(crate::report::Violation { signature: "C01:reference:long_history_differs".into(), summary: format!("long history (seed {}, {} operations): {}", seed, long_ops, truncate(&e, 600)), replay: json!({"kind": "c01_long", "seed": seed, "ops": long_ops}) });
                                }
                            }
                        }
                    }
                });
            }
        });
        acc.into_inner().unwrap()
    };
    out.violations.extend(long.5);
    let (swept, sv) = mass_sweeps(ctx, "C01", if ctx.tier == Tier::Quick { &[1500, 3000, 70_000] } else { &[1500, 3000, 70_000, 150_000, 300_000] }, false, &[]);
    out.violations.extend(sv);
    let c = &out.census;
    let inconclusive = floors(&[
        ("long_history_orders_max", long.4, 65_537),
        ("resting_orders_swept_by_single_aggressors", swept, 70_000),
        ("long_history_checkpoints", long.3, 100),
        ("trades", c.trades, 1000),
        ("partial_fills_passive", c.partial_fills_passive, 100),
        ("multi_level_sweeps", c.multi_level_sweeps, 100),
        ("cancel_partially_filled_head_bid", c.cancel_partially_filled_head_bid, 10),
        ("cancel_partially_filled_head_ask", c.cancel_partially_filled_head_ask, 10),
        ("market_remainder_discarded", c.market_remainder_discarded, 100),
        ("sweeps_bid_side_passive", c.sweeps_bid_side_passive, 100),
        ("sweeps_ask_side_passive", c.sweeps_ask_side_passive, 100),
        ("drains", c.drains, 1000),
    ]);
    let cov = book_coverage(&spec, &out, "Judged after every operation: order records, trade records, creation results, clock and (hook H2) the complete queue order of both sides, against the reference engine; tied histories are cut at the first tie insertion and left to C05.");
    let mut cov = cov;
    cov["mass_sweeps"] = json!({"resting_orders_swept_by_single_aggressors": swept, "largest_sweep": if ctx.tier == Tier::Quick { 70_000 } else { 300_000 }});
    cov["long_histories"] = json!({"histories": n_long, "operations_each": long_ops, "operations": long.0, "orders": long.1, "trades": long.2, "checkpoints_compared_with_the_reference": long.3, "largest_number_of_orders_in_one_book": long.4});
    ctx.finish("exploration", cov, valid_history_assumptions(), out.violations, inconclusive)
}

/// Views-only pass of C02 for *every* level count 1..24: a small generic function (cheap to
/// instantiate 24 times) that drives the real book and compares every getter with the recomputation.
fn views_only<B: crate::real::RealBook>(h: &History) -> Result<u64, Failure> {
    let mut b = B::new(h.cfg.t0, h.cfg.tick, h.cfg.trading0);
    let mut ever_disabled = !h.cfg.trading0;
    let mut states = 0u64;
    for (i, op) in h.ops.iter().enumerate() {
        if let Op::SetTrading(false) = op {
            ever_disabled = true;
        }
        match op {
            Op::Reload(_) => match B::from_json(&b.to_json(false)) {
                Ok(nb) => b = nb,
                Err(e) => return Err(Failure { op_index: i, monitor: "views".into(), kind: "reload_error".into(), detail: e }),
            },
            Op::Fork(_) | Op::Drain { .. } => {}
            _ => {
                if let Err(p) = crate::util::catch(|| Runner::<B>::apply_real_pub(&mut b, op)) {
                    return Err(Failure { op_index: i, monitor: "abort".into(), kind: "panic_in_operation".into(), detail: p });
                }
            }
        }
        let orders = b.orders();
        let exp = recompute_views(&orders, h.cfg.tick, B::LEVELS);
        let got = match crate::util::catch(|| b.views()) {
            Ok(v) => v,
            Err(p) => return Err(Failure { op_index: i, monitor: "abort".into(), kind: "panic_in_getter".into(), detail: format!("after {:?} with {} levels (tick {}): {}", op, B::LEVELS, h.cfg.tick, p) }),
        };
        states += 1;
        if exp != got {
            return Err(Failure { op_index: i, monitor: "views".into(), kind: "view_differs_from_orders".into(), detail: format!("after {:?} with {} levels: expected {:?} observed {:?}", op, B::LEVELS, exp, got) });
        }
        let crossed = exp.bid_vol > 0 && exp.ask_vol > 0 && exp.bid_ask.0 >= exp.bid_ask.1;
        if crossed && !ever_disabled {
            return Err(Failure { op_index: i, monitor: "views".into(), kind: "crossed_book".into(), detail: format!("after {:?}: {:?}", op, exp.bid_ask) });
        }
    }
    Ok(states)
}

fn views_only_dyn(h: &History) -> Result<u64, Failure> {
    use bourse_book::OrderBook as OB;
    macro_rules! arms { ($($n:literal),*) => { match h.cfg.levels { $( $n => views_only::<OB<$n>>(h), )* _ => Ok(0) } } }
    arms!(1, 2, 3, 4, 5, 6, 7, 8, 9, 10, 11, 12, 13, 14, 15, 16, 17, 18, 19, 20, 21, 22, 23, 24)
}

pub fn c02(ctx: &Ctx) -> i32 {
    let mut full = Profile::full();
    full.ops = (150, 300);
    full.w_toggle = 4;
    full.w_reload = 2;
    let mut narrow = Profile::full();
    narrow.ops = (100, 200);
    narrow.p_market = 0.05;
    let spec = BookSpec {
        check: "c02",
        mons: M_VIEWS,
        policy: TiePolicy::StopOnTie,
        exh: match ctx.tier {
            Tier::Quick => vec![exh(4, &ADV1, true, true), exh(5, &ADV1, false, true), exh_new(3, &ADV1, true, true, 0)],
            Tier::Thorough => vec![exh(5, &ADV1, true, true), exh(6, &ADV1, false, true), exh_new(4, &ADV1, true, true, 0)],
        },
        rnd: vec![(full, ctx.tier.pick(40_000, 600_000)), (narrow, ctx.tier.pick(8000, 120_000))],
        nontrivial: |c| c.max_resting > 0 && c.states_checked > 0,
        nontrivial_rule: "at least one state of the history had a non-empty side (distinct counts histories; the number of states checked is in census.states_checked)",
    };
    let mut out = run_book_spec(ctx, &spec);
    // every level count 1..24 (views-only pass)
    let per_level = ctx.tier.pick(400, 8000);
    let mut all_levels_states = 0u64;
    let mut levels_seen = Vec::new();
    {
        use std::sync::atomic::{AtomicUsize, Ordering};
        use std::sync::Mutex;
        let next = AtomicUsize::new(0);
        let res: Mutex<(u64, Vec<crate::report::Violation>)> = Mutex::new((0, Vec::new()));
        std::thread::scope(|s| {
            for _ in 0..ctx.threads.max(1) {
                s.spawn(|| {
                    crate::util::install_quiet_panic_hook();
                    loop {
                        let k = next.fetch_add(1, Ordering::Relaxed);
                        if k >= 24 * per_level {
                            break;
                        }
                        let levels = 1 + k % 24;
                        let mut p = Profile::full();
                        p.ops = (60, 160);
                        p.drain = false;
                        p.w_reload = 1;
                        p.levels_override = Some(levels);
                        let mut g = crate::gen::RndGen::new(crate::util::Sm::derive(ctx.seed, 0x24_0000 + k as u64), p);
                        let mut h = g.history();
                        h.cfg.levels = levels;
                        match views_only_dyn(&h) {
                            Ok(n) => res.lock().unwrap().0 += n,
                            Err(f) => {
                                let mut r = res.lock().unwrap();
                                if r.1.len() < 2 {
                                    r.1.push(crate::report::Violation {
                                        signature: format!("C02:{}:{}", f.monitor, f.kind),
                                        summary: format!("{} / {} at op {} ({} levels, tick {}): {}", f.monitor, f.kind, f.op_index, levels, h.cfg.tick, truncate(&f.detail, 500)),
                                        replay: json!({"kind": "c02_views_only", "history": h, "failure": f}),
                                    });
                                }
                            }
                        }
                    }
                });
            }
        });
        let (n, v) = res.into_inner().unwrap();
        all_levels_states = n;
        out.violations.extend(v);
        for l in 1..=24 {
            levels_seen.push(l);
        }
    }
    // single aggressors against thousands of resting orders: nothing may be left crossed, views follow the order list
    let (swept, sv) = mass_sweeps(ctx, "C02", if ctx.tier == Tier::Quick { &[1100, 2500, 66_000] } else { &[1100, 2500, 66_000, 200_000] }, false, &["views_after_sweep", "crossed_book", "sweep_incomplete"]);
    out.violations.extend(sv);
    let c = &out.census;
    let inconclusive = floors(&[
        ("resting_orders_swept_by_single_aggressors", swept, 60_000),
        ("all_level_counts_states", all_levels_states, 100_000),
        ("states_checked", c.states_checked, 100_000),
        ("crossed_states", c.crossed_states, 50),
        ("reloads", c.reloads, 50),
        ("modifies_effective", c.modifies_effective, 1000),
        ("partial_fills_passive", c.partial_fills_passive, 100),
    ]);
    let cov = book_coverage(&spec, &out, "Judged after every operation: every getter (bid_ask, totals, touch volumes and counts, bid/ask levels, level-1 and level-2 records, mid_price) against values recomputed from get_orders() alone, pairwise agreement of the views, occupied levels (hook H2), and best bid < best ask while trading has never been disabled. Level counts 1,2,3,5,10,24 with the full runner, and every level count 1..24 in a views-only pass (all_level_counts_states); see census for the event counts.");
    let mut cov = cov;
    cov["all_level_counts_states"] = json!(all_levels_states);
    cov["level_counts_covered"] = json!(levels_seen);
    ctx.finish("exploration", cov, valid_history_assumptions(), out.violations, inconclusive)
}

pub fn c03(ctx: &Ctx) -> i32 {
    let mut full = Profile::full();
    full.ops = (150, 300);
    full.w_reset = 3;
    full.p_large = 0.1;
    full.w_reload = 1;
    let spec = BookSpec {
        check: "c03",
        mons: M_LEDGER,
        policy: TiePolicy::StopOnTie,
        exh: match ctx.tier {
            Tier::Quick => vec![exh(4, &ADV1, true, true), exh(4, &ADV01, false, false), exh_new(3, &ADV1, true, false, 0)],
            Tier::Thorough => vec![exh(5, &ADV1, true, true), exh(5, &ADV01, false, false), exh_new(4, &ADV1, true, false, 0)],
        },
        rnd: vec![(full, ctx.tier.pick(60_000, 900_000))],
        nontrivial: |c| c.trades > 0,
        nontrivial_rule: "at least one trade was logged",
    };
    let mut out = run_book_spec(ctx, &spec);
    // the same ledger through the multi-asset wrapper: per asset log prefix, record fields, counter = sum since the last
    // reset (market-wide resets and resets of a single asset's book), in markets of 1..4, 12 and 66 assets
    let mout = crate::checks_mixed::run_market_spec(ctx, "c03", crate::marketsession::MK_LEDGER, &[0, 1, 2, 3, 4, 5], ctx.tier.pick(6000, 120_000), 150);
    out.violations.extend(mout.violations);
    let c = &out.census;
    let inconclusive = floors(&[
        ("trades", c.trades, 1000),
        ("modifies_that_traded", c.modifies_that_traded, 50),
        ("partial_fills_passive", c.partial_fills_passive, 100),
        ("toggles", c.toggles, 50),
        ("market_ledger_audits", mout.census.ledger_audits, 10_000),
        ("market_trades_audited", mout.census.ledger_trades_audited, 1000),
        ("market_counter_resets", mout.census.counter_resets, 500),
    ]);
    let mut cov = book_coverage(&spec, &out, "Ledger audit after every operation, independent of the reference engine: log prefix unchanged, each new record's time/side/price/volume/ids, opposite sides, limits admit the price, passive order was resting before the call, per-order volume account (submitted minus logged trades = current), cumulative counter = sum since the last reset issued by the harness. Market sessions: the same audit per asset through Market<1..4, 12, 66 assets> (get_trades(asset), get_trade_vols, market-wide and single-book resets).");
    cov["market_sessions"] = serde_json::json!(mout.census);
    ctx.finish("exploration", cov, valid_history_assumptions(), out.violations, inconclusive)
}

pub fn c04(ctx: &Ctx) -> i32 {
    let mut p = Profile::full();
    p.ops = (150, 300);
    p.p_any_target = 0.5;
    p.w_cancel = 20;
    p.w_place = 16;
    p.w_create = 10;
    p.w_modify = 20;
    p.w_reload = 1; // a terminal record must also survive a snapshot reload unchanged
    p.p_tie = 0.1;
    let mut e3 = exh(3, &ADV01, true, true);
    e3.redundant_place = true;
    let mut e4 = exh(4, &ADV01, false, true);
    e4.redundant_place = true;
    let mut e4m = exh(4, &ADV1, true, true);
    e4m.redundant_place = true;
    let mut e5 = exh(5, &ADV1, false, true);
    e5.redundant_place = true;
    let spec = BookSpec {
        check: "c04",
        mons: M_LIFE | M_JSON_NOOP,
        policy: TiePolicy::Any,
        exh: match ctx.tier {
            Tier::Quick => vec![e3, e4, exh_new(3, &ADV01, true, true, 0), exh_new(4, &ADV1, false, true, 0)],
            Tier::Thorough => vec![e4m, e5, exh_new(4, &ADV01, true, true, 0), exh_new(5, &ADV1, false, true, 0)],
        },
        rnd: vec![(p, ctx.tier.pick(40_000, 800_000))],
        nontrivial: |c| c.redundant_requests > 0 && (c.cancels_effective > 0 || c.trades > 0 || c.market_rejected > 0),
        nontrivial_rule: "at least one redundant request and at least one terminal transition",
    };
    let out = run_book_spec(ctx, &spec);
    let c = &out.census;
    let inconclusive = floors(&[
        ("redundant_requests", c.redundant_requests, 10_000),
        ("cancels_effective", c.cancels_effective, 1000),
        ("market_rejected", c.market_rejected, 20),
        ("market_remainder_discarded", c.market_remainder_discarded, 100),
        ("placements", c.placements, 1000),
    ]);
    let cov = book_coverage(&spec, &out, "Per-order automaton stepped on consecutive order lists after every operation (allowed transitions, dense ids, immutable id/side/trader, arrival time = time of the placing call, end time set exactly at the terminal transition, terminal records frozen) and full-snapshot equality (all views, orders, trades, queue order, JSON text) around every redundant request (re-place, cancel/modify of a non-active order, empty modify, set_time).");
    ctx.finish("exploration", cov, valid_history_assumptions(), out.violations, inconclusive)
}

pub fn c05_book_spec(tier: Tier) -> BookSpec {
    let mut p = Profile::full();
    p.ops = (100, 250);
    p.p_tie = 0.7;
    p.w_reload = 2;
    p.w_modify = 25;
    BookSpec {
        check: "c05",
        mons: M_ALL_BOOK | M_RELOAD,
        policy: TiePolicy::JudgeFromTie,
        exh: match tier {
            Tier::Quick => vec![exh(4, &ADV01, false, false), exh(3, &ADV01, true, false), exh_new(3, &ADV01, true, false, 0)],
            Tier::Thorough => vec![exh(5, &ADV01, false, false), exh(4, &ADV01, true, true), exh_new(4, &ADV01, true, false, 0)],
        },
        rnd: vec![(p, tier.pick(30_000, 500_000))],
        nontrivial: |c| c.tie_insertions > 0,
        nontrivial_rule: "at least one queue insertion landed on an occupied (side, price, timestamp) triple",
    }
}

pub fn c06(ctx: &Ctx) -> i32 {
    let mut p = Profile::full();
    p.ops = (150, 300);
    p.w_modify = 45;
    p.w_reload = 1; // the modify rule must also hold on a book that went through a snapshot
    p.w_toggle = 2;
    let spec = BookSpec {
        check: "c06",
        mons: M_REF | M_MODIFY,
        policy: TiePolicy::StopOnTie,
        exh: match ctx.tier {
            Tier::Quick => vec![exh(4, &ADV1, true, false), exh_new(3, &ADV1, true, false, 0)],
            Tier::Thorough => vec![exh(5, &ADV1, true, false), exh_new(4, &ADV1, true, false, 0)],
        },
        rnd: vec![(p, ctx.tier.pick(60_000, 1_000_000))],
        nontrivial: |c| c.modifies_effective > 0 && c.tie_insertions == 0,
        nontrivial_rule: "at least one modify request hit an Active order (distinct counts histories; census.modifies_effective counts the (state, request) pairs)",
    };
    let out = run_book_spec(ctx, &spec);
    let c = &out.census;
    let inconclusive = floors(&[
        ("modifies_pure_reduction", c.modifies_pure_reduction, 1000),
        ("modifies_requeue", c.modifies_requeue, 1000),
        ("modifies_that_traded", c.modifies_that_traded, 100),
        ("drains", c.drains, 1000),
    ]);
    let cov = book_coverage(&spec, &out, "After every operation: order and trade records and queue order (hook H2) against the reference engine, which implements exactly the rule in the statement; plus two direct assertions on every effective modify: (a) a pure reduction changes only that order's volume and the published volumes, queue order untouched; (b) any other modify keeps id/side/trader/arrival/start volume, carries the requested price and volume minus what it traded, and is last at its price if it still rests.");
    ctx.finish("exploration", cov, valid_history_assumptions(), out.violations, inconclusive)
}

pub fn c12_book_spec(tier: Tier) -> BookSpec {
    let mut p = Profile::full();
    p.ops = (100, 250);
    p.p_offgrid_create = 0.3;
    p.p_offgrid_modify = 0.4;
    p.w_modify = 30;
    p.w_create = 15;
    p.p_tie = 0.05;
    p.zero_bids = true;
    BookSpec {
        check: "c12",
        mons: M_GRID,
        policy: TiePolicy::Any,
        exh: vec![],
        rnd: vec![(p, tier.pick(40_000, 600_000))],
        nontrivial: |c| c.rejected_creations > 0 || c.offgrid_modifies > 0,
        nontrivial_rule: "the history contains at least one off-grid creation or modify request",
    }
}

pub fn c13_book_spec(tier: Tier) -> BookSpec {
    let mut p = Profile::full();
    p.ops = (150, 300);
    p.w_toggle = 6;
    p.w_reload = 1;
    p.p_start_disabled = 0.3;
    p.p_market = 0.2;
    BookSpec {
        check: "c13",
        mons: M_REF | M_NOTRADE,
        policy: TiePolicy::StopOnTie,
        exh: match tier {
            Tier::Quick => vec![exh(4, &ADV1, false, true), exh(3, &ADV1, true, true)],
            Tier::Thorough => vec![exh(5, &ADV1, false, true), exh(4, &ADV1, true, true)],
        },
        rnd: vec![(p, tier.pick(45_000, 700_000))],
        nontrivial: |c| c.ops_while_disabled > 0 && c.trades_after_reenable > 0,
        nontrivial_rule: "operations were issued while trading was disabled and at least one trade happened after re-enabling",
    }
}

pub fn census_json(c: &Census) -> serde_json::Value {
    json!(c)
}

pub fn c05(ctx: &Ctx) -> i32 {
    let spec = c05_book_spec(ctx.tier);
    let out = run_book_spec(ctx, &spec);
    let c = &out.census;
    let inconclusive = floors(&[("tie_insertions", c.tie_insertions, 1000), ("tied_histories", c.tied_histories, 500), ("drains", c.drains, 1000)]);
    let cov = book_coverage(&spec, &out, "All book monitors (reference equality incl. queue order, views, ledger, lifecycle, modify rule, reachability of every Active order, reload equivalence) judged from the first tie insertion on.");
    ctx.finish("exploration", cov, valid_history_assumptions(), out.violations, inconclusive)
}

pub fn c12(ctx: &Ctx) -> i32 {
    let spec = c12_book_spec(ctx.tier);
    let out = run_book_spec(ctx, &spec);
    let c = &out.census;
    let inconclusive = floors(&[("rejected_creations", c.rejected_creations, 1000), ("offgrid_modifies", c.offgrid_modifies, 1000)]);
    let cov = book_coverage(&spec, &out, "");
    ctx.finish("exploration", cov, valid_history_assumptions(), out.violations, inconclusive)
}

pub fn c13(ctx: &Ctx) -> i32 {
    let spec = c13_book_spec(ctx.tier);
    let out = run_book_spec(ctx, &spec);
    let c = &out.census;
    let inconclusive = floors(&[("ops_while_disabled", c.ops_while_disabled, 1000), ("market_rejected", c.market_rejected, 100), ("trades_after_reenable", c.trades_after_reenable, 100), ("toggles", c.toggles, 100)]);
    let cov = book_coverage(&spec, &out, "");
    ctx.finish("exploration", cov, valid_history_assumptions(), out.violations, inconclusive)
}

pub fn replay_views_only(h: &History) -> bool {
    views_only_dyn(h).is_err()
}
