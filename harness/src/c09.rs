//! C09 — a simulation is a pure function of its seed and parameters.

use crate::envlib::SimEnv;
use crate::real::RealBook;
use crate::report::{floors, Ctx, Violation};
use crate::util::{catch, Distinct, Fnv, Sm};
use bourse_de::agents::{Agent, AgentSet, MarketAgent, MarketAgentSet, MomentumAgent, MomentumMarketAgent, MomentumParams, NoiseAgent, NoiseAgentParams, NoiseMarketAgent, RandomAgents, RandomMarketAgents};
use bourse_de::{market_sim_runner, sim_runner, Env, MarketEnv};
use serde::{Deserialize, Serialize};
use serde_json::json;
use std::sync::atomic::{AtomicUsize, Ordering};
use std::sync::Mutex;

#[derive(AgentSet)]
struct SetR {
    a: RandomAgents,
}
#[derive(AgentSet)]
struct SetRN {
    a: RandomAgents,
    b: NoiseAgent,
}
#[derive(AgentSet)]
struct SetRNM {
    a: RandomAgents,
    b: NoiseAgent,
    c: MomentumAgent,
}
#[derive(AgentSet)]
struct SetNested {
    inner: SetRN,
    c: MomentumAgent,
    d: RandomAgents,
}
#[derive(MarketAgentSet)]
struct MSetRN {
    a: RandomMarketAgents,
    b: NoiseMarketAgent,
}
#[derive(MarketAgentSet)]
struct MSetAll {
    a: RandomMarketAgents,
    b: NoiseMarketAgent,
    c: MomentumMarketAgent,
    d: RandomMarketAgents,
}
#[derive(MarketAgentSet)]
struct MSetNested {
    inner: MSetRN,
    c: MomentumMarketAgent,
}

#[derive(Clone, Debug, Serialize, Deserialize)]
pub struct SimCfg {
    pub composition: u8, // 0..=3 single-asset, 4..=6 multi-asset (2 assets), 7 three assets
    pub seed: u64,
    pub n_steps: u64,
    pub step_size: u64,
    pub ticks: Vec<u32>,
    pub n_agents: u16,
    pub activity: f32,
    pub p_limit: f32,
    pub p_market: f32,
    pub p_cancel: f32,
    pub sigma: f64,
    pub demand: f64,
    pub center: u32,
    /// start time of the environment and whether trading is enabled (a tenth of the configurations run with trading off)
    #[serde(default)]
    pub t0: u64,
    #[serde(default = "yes")]
    pub trading: bool,
}
fn yes() -> bool {
    true
}

fn noise(c: &SimCfg, tick: u32) -> NoiseAgentParams {
    NoiseAgentParams { tick_size: tick, p_limit: c.p_limit, p_market: c.p_market, p_cancel: c.p_cancel, trade_vol: 20, price_dist_mu: 1.0, price_dist_sigma: c.sigma }
}
fn mom(c: &SimCfg, tick: u32) -> MomentumParams {
    MomentumParams { tick_size: tick, p_cancel: c.p_cancel, trade_vol: 15, decay: 0.5, demand: c.demand, scale: 0.5, order_ratio: 1.0, price_dist_mu: 1.0, price_dist_sigma: c.sigma }
}
fn rnd(c: &SimCfg, tick: u32) -> RandomAgents {
    let k = c.center / tick;
    RandomAgents::new(c.n_agents as usize, (k.saturating_sub(10).max(1), k + 10), (5, 40), tick, c.activity)
}
fn mrnd(c: &SimCfg, asset: usize) -> RandomMarketAgents {
    let tick = c.ticks[asset];
    let k = c.center / tick;
    RandomMarketAgents::new(asset, c.n_agents as usize, (k.saturating_sub(10).max(1), k + 10), (5, 40), tick, c.activity)
}

/// 128-bit digest (two FNV-1a streams with different offsets) of everything a run produced.
fn digest_env<E: SimEnv>(env: &E) -> (u64, u64, u64, u64) {
    let mut h1 = Fnv::new();
    let mut h2 = Fnv(0x1234_5678_9abc_def0);
    let mut n_orders = 0u64;
    let mut n_trades = 0u64;
    for a in 0..E::ASSETS {
        let s = format!("{:?}|{:?}|{:?}|{:?}", env.env_orders(a), env.env_trades(a), env.series(a), env.book(a).time());
        n_orders += env.env_orders(a).len() as u64;
        n_trades += env.env_trades(a).len() as u64;
        h1.bytes(s.as_bytes());
        h2.bytes(s.as_bytes());
        h2.u64(a as u64);
    }
    (h1.finish(), h2.finish(), n_orders, n_trades)
}

pub fn run_sim(c: &SimCfg, progress: bool) -> (u64, u64, u64, u64) {
    let t = c.ticks[0];
    match c.composition {
        0 => {
            let mut env: Env = Env::new(c.t0, t, c.step_size, c.trading);
            let mut s = SetR { a: rnd(c, t) };
            sim_runner(&mut env, &mut s, c.seed, c.n_steps, progress);
            digest_env(&env)
        }
        1 => {
            let mut env: Env = Env::new(c.t0, t, c.step_size, c.trading);
            let mut s = SetRN { a: rnd(c, t), b: NoiseAgent::new(1000, c.n_agents, noise(c, t)) };
            sim_runner(&mut env, &mut s, c.seed, c.n_steps, progress);
            digest_env(&env)
        }
        2 => {
            let mut env: Env = Env::new(c.t0, t, c.step_size, c.trading);
            let mut s = SetRNM { a: rnd(c, t), b: NoiseAgent::new(1000, c.n_agents, noise(c, t)), c: MomentumAgent::new(2000, c.n_agents, mom(c, t)) };
            sim_runner(&mut env, &mut s, c.seed, c.n_steps, progress);
            digest_env(&env)
        }
        3 => {
            let mut env: Env = Env::new(c.t0, t, c.step_size, c.trading);
            let mut s = SetNested { inner: SetRN { a: rnd(c, t), b: NoiseAgent::new(1000, c.n_agents, noise(c, t)) }, c: MomentumAgent::new(2000, c.n_agents, mom(c, t)), d: rnd(c, t) };
            sim_runner(&mut env, &mut s, c.seed, c.n_steps, progress);
            digest_env(&env)
        }
        4 => {
            let mut env: MarketEnv<2, 10> = MarketEnv::new(c.t0, [c.ticks[0], c.ticks[1]], c.step_size, c.trading);
            let mut s = MSetRN { a: mrnd(c, 0), b: NoiseMarketAgent::new(1, 1000, c.n_agents, noise(c, c.ticks[1])) };
            market_sim_runner(&mut env, &mut s, c.seed, c.n_steps, progress);
            digest_env(&env)
        }
        5 => {
            let mut env: MarketEnv<2, 10> = MarketEnv::new(c.t0, [c.ticks[0], c.ticks[1]], c.step_size, c.trading);
            let mut s = MSetAll { a: mrnd(c, 0), b: NoiseMarketAgent::new(0, 1000, c.n_agents, noise(c, c.ticks[0])), c: MomentumMarketAgent::new(2000, c.n_agents, 1, mom(c, c.ticks[1])), d: mrnd(c, 1) };
            market_sim_runner(&mut env, &mut s, c.seed, c.n_steps, progress);
            digest_env(&env)
        }
        6 => {
            let mut env: MarketEnv<2, 10> = MarketEnv::new(c.t0, [c.ticks[0], c.ticks[1]], c.step_size, c.trading);
            let mut s = MSetNested { inner: MSetRN { a: mrnd(c, 1), b: NoiseMarketAgent::new(0, 1000, c.n_agents, noise(c, c.ticks[0])) }, c: MomentumMarketAgent::new(2000, c.n_agents, 0, mom(c, c.ticks[0])) };
            market_sim_runner(&mut env, &mut s, c.seed, c.n_steps, progress);
            digest_env(&env)
        }
        _ => {
            let mut env: MarketEnv<3, 5> = MarketEnv::new(c.t0, [c.ticks[0], c.ticks[1], c.ticks[2]], c.step_size, c.trading);
            let mut s = MSetAll { a: mrnd(c, 2), b: NoiseMarketAgent::new(0, 1000, c.n_agents, noise(c, c.ticks[0])), c: MomentumMarketAgent::new(2000, c.n_agents, 1, mom(c, c.ticks[1])), d: mrnd(c, 1) };
            market_sim_runner(&mut env, &mut s, c.seed, c.n_steps, progress);
            digest_env(&env)
        }
    }
}

/// What the process did before must not matter: environments of the same types abandoned with unprocessed
/// instructions in their queues, and a simulation abandoned after two steps, on the thread that runs the next simulation.
fn pollute(c: &SimCfg, r: &mut Sm) {
    use bourse_book::types::Side;
    let t = c.ticks[0];
    let grid = |r: &mut Sm, tick: u32| -> u32 { (r.range(20, 4000) as u32) * tick };
    {
        let mut e: Env = Env::new(r.below(1000), t, c.step_size, r.chance(0.8));
        for _ in 0..r.range(1, 60) {
            let _ = e.place_order(if r.chance(0.5) { Side::Bid } else { Side::Ask }, r.range(1, 50) as u32, r.below(100) as u32, if r.chance(0.2) { None } else { Some(grid(r, t)) });
        }
        e.cancel_order(0);
        e.modify_order(0, None, Some(3));
    }
    {
        let mut e: MarketEnv<2, 10> = MarketEnv::new(r.below(1000), [c.ticks[0], c.ticks[1]], c.step_size, true);
        let mut first_asset = None;
        for _ in 0..r.range(1, 60) {
            let a = r.below(2) as usize;
            if e.place_order(a, if r.chance(0.5) { Side::Bid } else { Side::Ask }, r.range(1, 50) as u32, r.below(100) as u32, Some(grid(r, c.ticks[a]))).is_ok() && first_asset.is_none() {
                first_asset = Some(a);
            }
        }
        if let Some(a) = first_asset {
            e.cancel_order((a, 0)); // an existing order (valid input)
        }
    }
    {
        let mut e: MarketEnv<3, 5> = MarketEnv::new(0, [c.ticks[0], c.ticks[1], c.ticks[2]], c.step_size, true);
        for _ in 0..r.range(1, 30) {
            let a = r.below(3) as usize;
            let _ = e.place_order(a, Side::Bid, 5, 1, Some(grid(r, c.ticks[a])));
        }
    }
    let mut c2 = c.clone();
    c2.seed = r.next();
    c2.n_steps = 2;
    let _ = catch(|| run_sim(&c2, false));
    // chained sessions: another simulation (other seed) whose last agent update / last step happens exactly at the clock
    // value at which the next simulation starts
    for k in [2u64, 3] {
        for ends_at_start in [true, false] {
            let back = if ends_at_start { k } else { k - 1 } * c.step_size;
            if c.t0 >= back {
                let mut c3 = c.clone();
                c3.seed = r.next();
                c3.n_steps = k;
                c3.t0 = c.t0 - back;
                let _ = catch(|| run_sim(&c3, false));
            }
        }
    }
}

pub fn random_cfg(rng: &mut Sm, i: usize) -> SimCfg {
    // every seventh configuration is a *crowded* one: hundreds of agents per set and full activity, so that single
    // steps carry many hundreds of instructions (batch-size dependent code paths), over few steps to bound the cost
    if i % 7 == 6 {
        return SimCfg {
            composition: (i % 8) as u8,
            seed: rng.next(),
            n_steps: rng.range(3, 12),
            step_size: *rng.pick(&[2000u64, 100_000]),
            ticks: vec![rng.range(1, 10) as u32, rng.range(1, 10) as u32, rng.range(1, 10) as u32],
            n_agents: rng.range(150, 450) as u16,
            activity: 1.0,
            p_limit: *rng.pick(&[0.6, 1.0]),
            p_market: *rng.pick(&[0.1, 0.4]),
            p_cancel: *rng.pick(&[0.2, 0.6]),
            sigma: *rng.pick(&[0.5, 1.0]),
            demand: *rng.pick(&[1.0, 10.0]),
            center: rng.range(500, 20_000) as u32,
            t0: 0,
            trading: true,
        };
    }
    // every eleventh configuration runs a round number of steps (powers of two up to 8192, 1000, 10000) with a handful
    // of agents: step counts at which block-wise bookkeeping in the runners would come out even
    if i % 11 == 10 {
        return SimCfg {
            composition: (i % 8) as u8,
            seed: rng.next(),
            n_steps: *rng.pick(&[256u64, 512, 1000, 1024, 2048, 4096, 4096, 8192, 10_000]),
            step_size: *rng.pick(&[50u64, 1000]),
            ticks: vec![rng.range(1, 10) as u32, rng.range(1, 10) as u32, rng.range(1, 10) as u32],
            n_agents: rng.range(1, 3) as u16,
            activity: 0.3,
            p_limit: 0.2,
            p_market: 0.1,
            p_cancel: 0.6,
            sigma: 1.0,
            demand: 1.0,
            center: rng.range(500, 20_000) as u32,
            t0: 0,
            trading: true,
        };
    }
    SimCfg {
        composition: (i % 8) as u8,
        // most seeds are random 64-bit values; every tenth configuration uses a very small seed (0, 1, 2, ...)
        seed: if i % 10 == 9 { rng.below(4) } else { rng.next() },
        n_steps: if i % 5 == 4 { rng.range(200, 420) } else { rng.range(1, 120) },
        step_size: *rng.pick(&[50u64, 1000, 100_000]),
        ticks: vec![rng.range(1, 10) as u32, rng.range(1, 10) as u32, rng.range(1, 10) as u32],
        n_agents: if i % 5 == 4 { rng.range(2, 8) as u16 } else { rng.range(2, 30) as u16 },
        activity: *rng.pick(&[0.3, 0.7, 1.0]),
        p_limit: *rng.pick(&[0.2, 0.6, 1.0]),
        p_market: *rng.pick(&[0.1, 0.4]),
        p_cancel: *rng.pick(&[0.0, 0.2, 0.6]),
        sigma: *rng.pick(&[0.5, 1.0, 10.0]),
        demand: *rng.pick(&[1.0, 10.0]),
        center: rng.range(500, 20_000) as u32,
        t0: if rng.chance(0.3) { rng.below(1 << 40) } else { 0 },
        trading: !rng.chance(0.1),
    }
}

/// Child entry: `bvmon c09-child <cfg json> <progress 0|1> <junk kb>` — prints the digest.
pub fn child(cfg_json: &str, progress: bool, junk_kb: usize) -> i32 {
    // perturb the heap: whatever addresses the allocator hands out must not matter
    let junk: Vec<Vec<u8>> = (0..junk_kb).map(|i| vec![(i % 251) as u8; 1024 + (i % 7) * 13]).collect();
    std::hint::black_box(&junk);
    let c: SimCfg = serde_json::from_str(cfg_json).expect("cfg");
    let d = run_sim(&c, progress);
    println!("DIGEST {:016x} {:016x} {} {}", d.0, d.1, d.2, d.3);
    0
}

fn spawn_child(c: &SimCfg, progress: bool, rng: &mut Sm, scratch: &str) -> Result<(u64, u64, u64, u64), String> {
    let exe = std::env::current_exe().map_err(|e| e.to_string())?;
    let cwd = format!("{}/cwd-{}", scratch, rng.below(1_000_000));
    std::fs::create_dir_all(&cwd).ok();
    let out = std::process::Command::new(exe)
        .args(["c09-child", &serde_json::to_string(c).unwrap(), if progress { "1" } else { "0" }, &rng.range(0, 4000).to_string()])
        .env("TZ", *rng.pick(&["UTC", "Asia/Tokyo", "America/New_York"]))
        .env("LANG", *rng.pick(&["C", "en_US.UTF-8", "de_DE.UTF-8"]))
        .env("BVMON_JUNK", rng.next().to_string())
        .env("RUST_BACKTRACE", "0")
        .env("COLUMNS", rng.range(20, 200).to_string())
        .current_dir(&cwd)
        .stderr(std::process::Stdio::null())
        .output()
        .map_err(|e| e.to_string())?;
    std::fs::remove_dir_all(&cwd).ok();
    if !out.status.success() {
        return Err(format!("child exited with {}", out.status));
    }
    let s = String::from_utf8_lossy(&out.stdout);
    for l in s.lines() {
        if let Some(rest) = l.strip_prefix("DIGEST ") {
            let p: Vec<&str> = rest.split_whitespace().collect();
            if p.len() == 4 {
                return Ok((u64::from_str_radix(p[0], 16).unwrap_or(0), u64::from_str_radix(p[1], 16).unwrap_or(0), p[2].parse().unwrap_or(0), p[3].parse().unwrap_or(0)));
            }
        }
    }
    Err("child printed no digest".into())
}

pub fn c09(ctx: &Ctx) -> i32 {
    let n_cfg = ctx.tier.pick(1600, 16_000);
    let next = AtomicUsize::new(0);
    let merged = Mutex::new((0u64, 0u64, 0u64, 0u64, Vec::<Violation>::new(), Vec::<u64>::new(), Vec::<serde_json::Value>::new(), [0u64; 8], Vec::<String>::new(), 0u64));
    std::thread::scope(|s| {
        for _ in 0..ctx.threads.max(1) {
            s.spawn(|| {
                crate::util::install_quiet_panic_hook();
                let (mut runs, mut children, mut traded, mut seed_pairs) = (0u64, 0u64, 0u64, 0u64);
                let mut viols = Vec::new();
                let mut keys = Vec::new();
                let mut samples = Vec::new();
                let mut per_comp = [0u64; 8];
                let mut incs = Vec::new();
                let mut orders_total = 0u64;
                loop {
                    let i = next.fetch_add(1, Ordering::Relaxed);
                    if i >= n_cfg || viols.len() >= 3 {
                        break;
                    }
                    let mut r = Sm::derive(ctx.seed, 0x09_0000 + i as u64);
                    let c = random_cfg(&mut r, i);
                    per_comp[c.composition as usize] += 1;
                    let mut bad = |kind: &str, detail: String, viols: &mut Vec<Violation>| {
                        viols.push(Violation {
                            signature: format!("C09:determinism:{}", kind),
                            summary: format!("{} (composition {}, seed {}, {} steps): {}", kind, c.composition, c.seed, c.n_steps, detail),
                            replay: json!({"kind": "c09", "cfg": c, "failure": {"kind": kind, "detail": detail}}),
                        });
                    };
                    let d1 = match catch(|| run_sim(&c, false)) {
                        Ok(d) => d,
                        Err(p) => {
                            bad("abort", p, &mut viols);
                            continue;
                        }
                    };
                    runs += 1;
                    orders_total += d1.2;
                    // the repeat runs after unrelated activity on this thread (abandoned environments, another simulation)
                    if catch(|| pollute(&c, &mut r)).is_err() {
                        bad("abort", "preparing unrelated environments panicked".into(), &mut viols);
                        continue;
                    }
                    let d2 = catch(|| run_sim(&c, false)).unwrap_or((0, 0, 0, 0));
                    runs += 1;
                    if d1 != d2 {
                        bad("same_process_rerun_differs", format!("{:x?} vs {:x?}", d1, d2), &mut viols);
                        continue;
                    }
                    // other OS process, plain and with the progress bar
                    for progress in [false, true] {
                        match spawn_child(&c, progress, &mut r, &ctx.scratch) {
                            Ok(dc) => {
                                children += 1;
                                if dc != d1 {
                                    bad(if progress { "progress_bar_branch_differs" } else { "other_process_differs" }, format!("in-process {:x?} child {:x?}", d1, dc), &mut viols);
                                }
                            }
                            Err(e) => incs.push(e),
                        }
                    }
                    if d1.3 > 0 {
                        traded += 1;
                        keys.push(d1.0);
                        if samples.is_empty() {
                            samples.push(json!({"cfg": c, "digest": format!("{:016x}{:016x}", d1.0, d1.1), "orders": d1.2, "trades": d1.3}));
                        }
                    }
                    // a different seed gives a different run (configurations with guaranteed activity)
                    if d1.2 >= 20 {
                        let mut c2 = c.clone();
                        c2.seed = c.seed.wrapping_add(1);
                        if let Ok(d3) = catch(|| run_sim(&c2, false)) {
                            runs += 1;
                            seed_pairs += 1;
                            if d3 == d1 {
                                bad("different_seed_same_run", format!("seeds {} and {} both give {:x?}", c.seed, c2.seed, d1), &mut viols);
                            }
                        }
                        // seeds that differ only in a high bit
                        let mut c4 = c.clone();
                        c4.seed = c.seed ^ (1u64 << (32 + (i % 31)));
                        if let Ok(d4) = catch(|| run_sim(&c4, false)) {
                            runs += 1;
                            seed_pairs += 1;
                            if d4 == d1 {
                                bad("different_seed_same_run", format!("seeds {} and {} both give {:x?}", c.seed, c4.seed, d1), &mut viols);
                            }
                        }
                    }
                }
                let mut m = merged.lock().unwrap();
                m.0 += runs;
                m.1 += children;
                m.2 += traded;
                m.3 += seed_pairs;
                m.4.extend(viols);
                m.5.extend(keys);
                if m.6.len() < 2 {
                    m.6.extend(samples);
                }
                for k in 0..8 {
                    m.7[k] += per_comp[k];
                }
                m.8.extend(incs);
                m.9 += orders_total;
            });
        }
    });
    let (runs, children, traded, seed_pairs, violations, keys, samples, per_comp, incs, orders_total) = merged.into_inner().unwrap();
    let mut d = Distinct::new(1_000_000);
    for k in keys {
        d.add(k);
    }
    let mut inconclusive = floors(&[("in_process_runs", runs, 400), ("child_process_runs", children, 400), ("configurations_that_traded", traded, 100), ("seed_pairs", seed_pairs, 100)]);
    if inconclusive.is_none() && incs.len() as u64 > children / 20 + 2 {
        inconclusive = Some(format!("{} child processes failed: {}", incs.len(), incs[0]));
    }
    let cov = json!({
        "evaluations": runs + children,
        "distinct_nontrivial": d.len(),
        "rule": "cases = complete simulation runs through sim_runner / market_sim_runner: 8 compositions of the built-in agents through both derive macros (incl. nested sets; 1, 2 and 3 assets), random seeds, step counts 1..120 and 200..420, every eleventh configuration a round step count (256 .. 8192, 1000, 10000) with a handful of agents (every seventh configuration is crowded instead: 150..450 agents per set at full activity, several hundred instructions per step, 3..12 steps), step sizes, ticks 1..10 and agent parameters; each configuration is run twice in-process (the repeat after unrelated activity on the same thread: environments of the same types abandoned with unprocessed instructions, another simulation abandoned after two steps, and - chained sessions - other-seed simulations of two and three steps that end exactly at, or one step before, the clock value at which the repeated run starts), once in a child OS process and once in a child with the progress bar (children get perturbed environment variables, working directory and heap), and once more with seed+1; compared through a 128-bit FNV digest of all orders, trades, every recorded series and the clock; distinct = distinct digests; non-trivial = the run traded",
        "samples": samples,
        "in_process_runs": runs,
        "child_process_runs": children,
        "configurations_that_traded": traded,
        "seed_pairs_compared": seed_pairs,
        "per_composition": per_comp,
        "orders_digested": orders_total,
        "child_failures": incs.len(),
    });
    ctx.finish("exploration", cov, vec!["the digest covers get_orders, get_trades, every recorded series (level-2 history, per-step traded volume) and the clock of every asset".into()], violations, inconclusive)
}

pub fn replay_c09(doc: &serde_json::Value) -> i32 {
    let c: SimCfg = match serde_json::from_value(doc["cfg"].clone()) {
        Ok(c) => c,
        Err(_) => return 2,
    };
    let scratch = format!("/verif/target/scratch/replay-{}", std::process::id());
    std::fs::create_dir_all(&scratch).ok();
    let mut r = Sm::new(1);
    let d1 = run_sim(&c, false);
    let d2 = run_sim(&c, false);
    let dc = spawn_child(&c, false, &mut r, &scratch);
    let dp = spawn_child(&c, true, &mut r, &scratch);
    std::fs::remove_dir_all(&scratch).ok();
    if d1 != d2 || dc.as_ref().ok() != Some(&d1) || dp.as_ref().ok() != Some(&d1) {
        println!("REPRODUCED property=C09 in-process {:x?} / {:x?}, child {:x?}, child with progress bar {:x?}", d1, d2, dc, dp);
        1
    } else {
        println!("NOT-REPRODUCED property=C09");
        0
    }
}

// keep the traits referenced so that the derive output resolves
#[allow(unused)]
fn _traits<A: Agent, M: MarketAgent>() {}
