//! Client-boundary access to the real `bourse_book::OrderBook<LEVELS>` through one trait, so that
//! monitors are written once and instantiated for several level counts.

use crate::model::{ROrder, RTrade};
use bourse_book::types::{Event, Order, Side, Status, Trade};
use bourse_book::OrderBook;
use serde::Serialize;

pub fn side_of(bid: bool) -> Side {
    if bid {
        Side::Bid
    } else {
        Side::Ask
    }
}

pub fn status_u8(s: Status) -> u8 {
    match s {
        Status::New => 0,
        Status::Active => 1,
        Status::Filled => 2,
        Status::Cancelled => 3,
        Status::Rejected => 4,
        // a status this harness does not know (added by the tree under test): reported as-is, never equal to a documented code
        #[allow(unreachable_patterns)]
        _ => 250,
    }
}

pub fn conv_order(o: &Order) -> ROrder {
    ROrder {
        bid: matches!(o.side, Side::Bid),
        status: status_u8(o.status),
        arr: o.arr_time,
        end: o.end_time,
        vol: o.vol,
        start_vol: o.start_vol,
        price: o.price,
        trader: o.trader_id,
        id: o.order_id,
    }
}

pub fn conv_trade(t: &Trade) -> RTrade {
    RTrade {
        t: t.t,
        bid: matches!(t.side, Side::Bid),
        price: t.price,
        vol: t.vol,
        active: t.active_order_id,
        passive: t.passive_order_id,
    }
}

/// Every published view of a book, read at the client boundary after a call has returned.
#[derive(Clone, PartialEq, Debug, Serialize)]
pub struct Views {
    pub bid_ask: (u32, u32),
    pub bid_vol: u32,
    pub ask_vol: u32,
    pub bid_best_vol: u32,
    pub ask_best_vol: u32,
    pub bid_best: (u32, u32),
    pub ask_best: (u32, u32),
    pub bid_levels: Vec<(u32, u32)>,
    pub ask_levels: Vec<(u32, u32)>,
    /// bid_price, ask_price, bid_vol, ask_vol, bid_touch_vol, ask_touch_vol, bid_touch_orders, ask_touch_orders
    pub l1: [u32; 8],
    pub l2_head: [u32; 4],
    pub l2_bid: Vec<(u32, u32)>,
    pub l2_ask: Vec<(u32, u32)>,
    /// bits of the f64, or None when `mid_price()` panicked
    pub mid: Option<u64>,
}

/// Complete observable snapshot of one book.
#[derive(Clone, PartialEq, Debug, Serialize)]
pub struct Obs {
    pub t: u64,
    pub trade_vol: u32,
    pub orders: Vec<ROrder>,
    pub trades: Vec<RTrade>,
    pub views: Views,
    /// H2 (only with hooks): resting ids per side in priority order, occupied levels, trading flag
    pub queue: Option<(Vec<usize>, Vec<usize>)>,
    pub hlevels: Option<(Vec<(u32, u32, u32)>, Vec<(u32, u32, u32)>)>,
    pub trading: Option<bool>,
}

pub trait RealBook: Sized {
    const LEVELS: usize;
    fn new(t: u64, tick: u32, trading: bool) -> Self;
    fn time(&self) -> u64;
    fn set_time(&mut self, t: u64);
    fn set_trading(&mut self, on: bool);
    fn trade_vol(&self) -> u32;
    fn reset_trade_vol(&mut self);
    fn create(&mut self, bid: bool, vol: u32, trader: u32, price: Option<u32>) -> Result<usize, String>;
    fn create_place(&mut self, bid: bool, vol: u32, trader: u32, price: Option<u32>) -> Result<usize, String>;
    fn place(&mut self, id: usize);
    fn cancel(&mut self, id: usize);
    fn modify(&mut self, id: usize, p: Option<u32>, v: Option<u32>);
    fn ev_new(&mut self, id: usize);
    fn ev_cancel(&mut self, id: usize);
    fn ev_modify(&mut self, id: usize, p: Option<u32>, v: Option<u32>);
    fn n_orders(&self) -> usize;
    fn orders(&self) -> Vec<ROrder>;
    fn order(&self, id: usize) -> ROrder;
    fn n_trades(&self) -> usize;
    fn trades(&self) -> Vec<RTrade>;
    fn trades_from(&self, from: usize) -> Vec<RTrade>;
    fn views(&self) -> Views;
    fn queue(&self) -> Option<(Vec<usize>, Vec<usize>)>;
    fn hlevels(&self) -> Option<(Vec<(u32, u32, u32)>, Vec<(u32, u32, u32)>)>;
    fn trading_flag(&self) -> Option<bool>;
    fn to_json(&self, pretty: bool) -> String;
    fn from_json(s: &str) -> Result<Self, String>;
    fn save_file(&self, path: &str, pretty: bool) -> Result<(), String>;
    fn load_file(path: &str) -> Result<Self, String>;

    fn obs(&self) -> Obs {
        Obs {
            t: self.time(),
            trade_vol: self.trade_vol(),
            orders: self.orders(),
            trades: self.trades(),
            views: self.views(),
            queue: self.queue(),
            hlevels: self.hlevels(),
            trading: self.trading_flag(),
        }
    }
}

pub fn views_of<const L: usize>(b: &OrderBook<L>) -> Views {
    let l1 = b.level_1_data();
    let l2 = b.level_2_data();
    let mid = crate::util::catch(|| b.mid_price()).ok().map(|m| m.to_bits());
    Views {
        bid_ask: b.bid_ask(),
        bid_vol: b.bid_vol(),
        ask_vol: b.ask_vol(),
        bid_best_vol: b.bid_best_vol(),
        ask_best_vol: b.ask_best_vol(),
        bid_best: b.bid_best_vol_and_orders(),
        ask_best: b.ask_best_vol_and_orders(),
        bid_levels: b.bid_levels().to_vec(),
        ask_levels: b.ask_levels().to_vec(),
        l1: [
            l1.bid_price,
            l1.ask_price,
            l1.bid_vol,
            l1.ask_vol,
            l1.bid_touch_vol,
            l1.ask_touch_vol,
            l1.bid_touch_orders,
            l1.ask_touch_orders,
        ],
        l2_head: [l2.bid_price, l2.ask_price, l2.bid_vol, l2.ask_vol],
        l2_bid: l2.bid_price_levels.to_vec(),
        l2_ask: l2.ask_price_levels.to_vec(),
        mid,
    }
}

impl<const L: usize> RealBook for OrderBook<L> {
    const LEVELS: usize = L;
    fn new(t: u64, tick: u32, trading: bool) -> Self {
        OrderBook::<L>::new(t, tick, trading)
    }
    fn time(&self) -> u64 {
        self.get_time()
    }
    fn set_time(&mut self, t: u64) {
        let _ = OrderBook::set_time(self, t);
    }
    fn set_trading(&mut self, on: bool) {
        if on {
            let _ = self.enable_trading();
        } else {
            let _ = self.disable_trading();
        }
    }
    fn trade_vol(&self) -> u32 {
        self.get_trade_vol()
    }
    fn reset_trade_vol(&mut self) {
        let _ = OrderBook::reset_trade_vol(self);
    }
    fn create(&mut self, bid: bool, vol: u32, trader: u32, price: Option<u32>) -> Result<usize, String> {
        self.create_order(side_of(bid), vol, trader, price).map_err(|e| e.to_string())
    }
    fn create_place(&mut self, bid: bool, vol: u32, trader: u32, price: Option<u32>) -> Result<usize, String> {
        self.create_and_place_order(side_of(bid), vol, trader, price).map_err(|e| e.to_string())
    }
    fn place(&mut self, id: usize) {
        let _ = self.place_order(id);
    }
    fn cancel(&mut self, id: usize) {
        let _ = self.cancel_order(id);
    }
    fn modify(&mut self, id: usize, p: Option<u32>, v: Option<u32>) {
        let _ = self.modify_order(id, p, v);
    }
    fn ev_new(&mut self, id: usize) {
        let _ = self.process_event(Event::New { order_id: id });
    }
    fn ev_cancel(&mut self, id: usize) {
        let _ = self.process_event(Event::Cancellation { order_id: id });
    }
    fn ev_modify(&mut self, id: usize, p: Option<u32>, v: Option<u32>) {
        let _ = self.process_event(Event::Modify { order_id: id, new_price: p, new_vol: v });
    }
    fn n_orders(&self) -> usize {
        self.get_orders().len()
    }
    fn orders(&self) -> Vec<ROrder> {
        self.get_orders().into_iter().map(conv_order).collect()
    }
    fn order(&self, id: usize) -> ROrder {
        conv_order(OrderBook::order(self, id))
    }
    fn n_trades(&self) -> usize {
        self.get_trades().len()
    }
    fn trades(&self) -> Vec<RTrade> {
        self.get_trades().iter().map(conv_trade).collect()
    }
    fn trades_from(&self, from: usize) -> Vec<RTrade> {
        self.get_trades()[from.min(self.get_trades().len())..].iter().map(conv_trade).collect()
    }
    fn views(&self) -> Views {
        views_of(self)
    }
    #[cfg(feature = "hooks")]
    fn queue(&self) -> Option<(Vec<usize>, Vec<usize>)> {
        Some((self.verif_resting(Side::Bid), self.verif_resting(Side::Ask)))
    }
    #[cfg(not(feature = "hooks"))]
    fn queue(&self) -> Option<(Vec<usize>, Vec<usize>)> {
        None
    }
    #[cfg(feature = "hooks")]
    fn hlevels(&self) -> Option<(Vec<(u32, u32, u32)>, Vec<(u32, u32, u32)>)> {
        Some((self.verif_levels(Side::Bid), self.verif_levels(Side::Ask)))
    }
    #[cfg(not(feature = "hooks"))]
    fn hlevels(&self) -> Option<(Vec<(u32, u32, u32)>, Vec<(u32, u32, u32)>)> {
        None
    }
    #[cfg(feature = "hooks")]
    fn trading_flag(&self) -> Option<bool> {
        Some(self.verif_trading())
    }
    #[cfg(not(feature = "hooks"))]
    fn trading_flag(&self) -> Option<bool> {
        None
    }
    fn to_json(&self, pretty: bool) -> String {
        if pretty {
            serde_json::to_string_pretty(self).unwrap()
        } else {
            serde_json::to_string(self).unwrap()
        }
    }
    fn from_json(s: &str) -> Result<Self, String> {
        serde_json::from_str::<OrderBook<L>>(s).map_err(|e| e.to_string())
    }
    fn save_file(&self, path: &str, pretty: bool) -> Result<(), String> {
        self.save_json(path, pretty).map_err(|e| e.to_string())
    }
    fn load_file(path: &str) -> Result<Self, String> {
        OrderBook::<L>::load_json(path).map_err(|e| e.to_string())
    }
}

/// Dispatch a generic function over the monomorphised level counts.
#[macro_export]
macro_rules! with_levels {
    ($n:expr, $f:ident ( $($arg:expr),* )) => {
        match $n {
            1 => $f::<bourse_book::OrderBook<1>>($($arg),*),
            2 => $f::<bourse_book::OrderBook<2>>($($arg),*),
            3 => $f::<bourse_book::OrderBook<3>>($($arg),*),
            5 => $f::<bourse_book::OrderBook<5>>($($arg),*),
            10 => $f::<bourse_book::OrderBook<10>>($($arg),*),
            24 => $f::<bourse_book::OrderBook<24>>($($arg),*),
            other => panic!("level count {} not monomorphised", other),
        }
    };
}

pub const LEVEL_CHOICES: [usize; 6] = [1, 2, 3, 5, 10, 24];
