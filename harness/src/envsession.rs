//! One seeded environment session: G-env batches driven into a real `Env` / `MarketEnv`, with the
//! environment-level monitors (C05 over-full steps, C08, C10, C11, C12/C13/C14 environment parts).

use crate::envlib::*;
use crate::model::*;
use crate::ops::recompute_views;
use crate::real::RealBook;
use crate::util::{catch, Fnv, Sm};
use rand_xoshiro::rand_core::SeedableRng;
use rand_xoshiro::Xoroshiro128StarStar;
use serde::Serialize;

pub const E_STEP: u32 = 1; // C08
pub const E_INVIS: u32 = 2; // C10
pub const E_REC: u32 = 4; // C11
pub const E_GRID: u32 = 8; // C12 (environment part)
pub const E_FLAG: u32 = 16; // C13 (environment part)
pub const E_ASSET: u32 = 32; // C14 (environment part)
pub const E_OVERFULL: u32 = 64; // C05 (environment part)

#[derive(Clone, Debug, Serialize, serde::Deserialize)]
pub struct SessionCfg {
    pub env_idx: usize,
    pub flags: u32,
    pub sub_seed: u64,
    pub max_steps: usize,
    pub toggle_rate: f64,
    pub offgrid_rate: f64,
    /// run only up to (and including) this step when replaying
    pub stop_after: Option<usize>,
}

#[derive(Clone, Debug, Serialize)]
pub struct EnvFailure {
    pub step: usize,
    pub monitor: String,
    pub kind: String,
    pub detail: String,
    pub batch: Vec<Ins>,
}

#[derive(Clone, Debug, Default, Serialize)]
pub struct EnvCensus {
    pub sessions: u64,
    pub steps: u64,
    pub instructions: u64,
    pub new_orders: u64,
    pub cancels: u64,
    pub modifies: u64,
    pub empty_batches: u64,
    pub full_batches: u64,
    pub overfull_batches: u64,
    pub crowded_batches: u64,
    pub large_volume_sessions: u64,
    pub resume_sessions: u64,
    pub cancel_end_times_checked: u64,
    pub same_batch_targets: u64,
    pub multi_instruction_orders: u64,
    pub trades: u64,
    pub schedules_by_hint: u64,
    pub schedules_by_search: u64,
    pub search_candidates: u64,
    pub submissions_checked: u64,
    pub rejected_submissions: u64,
    pub rows_compared: u64,
    pub asymmetric_rows: u64,
    pub deep_level_rows: u64,
    pub toggles: u64,
    pub toggles_after_submission: u64,
    pub steps_while_disabled: u64,
    pub market_rejected: u64,
    pub trades_after_reenable: u64,
    pub cross_asset_id_collisions: u64,
    pub drains: u64,
    pub tie_like_stamps: u64,
    pub multi_asset_sessions: u64,
    pub per_type_sessions: [u64; N_ENV_TYPES],
}

impl EnvCensus {
    pub fn merge(&mut self, o: &EnvCensus) {
        macro_rules! add { ($($f:ident),*) => { $( self.$f += o.$f; )* } }
        add!(
            sessions, steps, instructions, new_orders, cancels, modifies, empty_batches, full_batches,
            overfull_batches, crowded_batches, large_volume_sessions, resume_sessions, cancel_end_times_checked, same_batch_targets, multi_instruction_orders, trades, schedules_by_hint,
            schedules_by_search, search_candidates, submissions_checked, rejected_submissions,
            rows_compared, asymmetric_rows, deep_level_rows, toggles, toggles_after_submission, steps_while_disabled, market_rejected,
            trades_after_reenable, cross_asset_id_collisions, drains, tie_like_stamps, multi_asset_sessions
        );
        for i in 0..N_ENV_TYPES {
            self.per_type_sessions[i] += o.per_type_sessions[i];
        }
    }
}

pub struct SessionOut {
    pub distinct_keys: Vec<u64>,
    pub sample: Option<serde_json::Value>,
}

fn efail<T>(step: usize, monitor: &str, kind: &str, detail: String, batch: &[Ins]) -> Result<T, EnvFailure> {
    Err(EnvFailure { step, monitor: monitor.into(), kind: kind.into(), detail, batch: batch.to_vec() })
}

fn live_l2<B: RealBook>(b: &B) -> L2 {
    let v = b.views();
    L2 { head: v.l2_head, bid: v.l2_bid, ask: v.l2_ask }
}

fn check_cached_l2<E: SimEnv>(env: &E, step: usize, when: &str, batch: &[Ins]) -> Result<(), EnvFailure> {
    for a in 0..E::ASSETS {
        let c = env.cached_l2(a);
        let l = live_l2(env.book(a));
        if c != l {
            return efail(step, "invisible", "cached_level2_differs_from_live_book", format!("{} asset {}: cached {:?} live {:?}", when, a, c, l), batch);
        }
    }
    Ok(())
}

/// Run one session. Deterministic in `cfg` (the generator only looks at the environment's own
/// observable state, which is deterministic in the seed).
pub fn session<E: SimEnv>(cfg: &SessionCfg, cs: &mut EnvCensus, out: &mut SessionOut) -> Result<(), EnvFailure> {
    let on = |f: u32| cfg.flags & f != 0;
    let mut rng = Sm::derive(cfg.sub_seed, 0xE57);
    let assets = E::ASSETS;
    let gen = EnvGenCfg::random(&mut rng, assets, E::LEVELS);
    let overfull = on(E_OVERFULL);
    let step_size: u64 = if overfull {
        rng.range(2, 8)
    } else {
        match rng.below(4) {
            0 => rng.range(1, 8),
            1 | 2 => rng.range(8, 64),
            _ => rng.range(100, 100_000),
        }
    };
    let t0 = if rng.chance(0.3) { rng.below(1 << 40) } else if rng.chance(0.2) { 0 } else { rng.below(100) };
    // large-volume sessions keep trading enabled: their takers are sized to trade completely, resting them would leave the valid range
    let mut trading = gen.large || !rng.chance(if on(E_FLAG) { 0.3 } else { 0.1 });
    // resume regime (one ordinary session in twenty): the session starts halted, two steps of orders rest crossed, trading
    // is switched on, and from then on steps carry one or two instructions sized to fill exactly (EnvGenCfg::exact_batch)
    let resume = !gen.large && !overfull && rng.chance(0.05);
    if resume {
        trading = false;
        cs.resume_sessions += 1;
    }
    let mut env = E::create(t0, &gen.ticks, step_size, trading);
    let mut shadow: Shadow<E::Book> = Shadow::new(t0, &gen.ticks, trading);
    let mut rshadow = RefShadow::new(t0, &gen.ticks, trading);
    let mut xr = Xoroshiro128StarStar::seed_from_u64(rng.next());
    let n_steps = rng.range(3, cfg.max_steps as u64) as usize;
    cs.sessions += 1;
    if gen.large {
        cs.large_volume_sessions += 1;
    }
    cs.per_type_sessions[cfg.env_idx] += 1;
    if assets > 1 {
        cs.multi_asset_sessions += 1;
    }
    let mut own: Vec<Series> = (0..assets)
        .map(|_| Series {
            lvl_bid_vol: vec![Vec::new(); E::LEVELS],
            lvl_ask_vol: vec![Vec::new(); E::LEVELS],
            lvl_bid_n: vec![Vec::new(); E::LEVELS],
            lvl_ask_n: vec![Vec::new(); E::LEVELS],
            ..Default::default()
        })
        .collect();
    let mut ever_disabled = !trading;
    let mut reenabled = false;
    let mut sample_trace: Vec<serde_json::Value> = Vec::new();

    if on(E_INVIS) {
        check_cached_l2(&env, 0, "after construction", &[])?;
    }

    for step in 0..n_steps {
        if let Some(s) = cfg.stop_after {
            if step > s {
                break;
            }
        }
        cs.steps += 1;
        // ---- between steps: maybe toggle trading ----
        if if resume { step == 2 } else { !gen.large && rng.chance(cfg.toggle_rate) } {
            let before = if on(E_FLAG) || on(E_INVIS) { Some(env.obs()) } else { None };
            trading = !trading;
            env.set_trading(trading);
            shadow.set_trading(trading);
            rshadow.set_trading(trading);
            cs.toggles += 1;
            if !trading {
                ever_disabled = true;
            } else {
                reenabled = true;
            }
            if let Some(b) = before {
                let mut a = env.obs();
                for (x, y) in a.assets.iter_mut().zip(b.assets.iter()) {
                    x.book.trading = y.book.trading;
                }
                if a != b {
                    return efail(step, "flag", "toggle_changed_state", "switching the trading flag changed an observable of the environment".into(), &[]);
                }
                #[allow(clippy::collapsible_if)]
                if on(E_FLAG) {
                    // the flag reaches every asset
                    for k in 0..assets {
                        if let Some(f) = env.book(k).trading_flag() {
                            if f != trading {
                                return efail(step, "flag", "toggle_not_fanned_out", format!("asset {} has trading={} after set to {}", k, f, trading), &[]);
                            }
                        }
                    }
                }
            }
        }
        if !trading {
            cs.steps_while_disabled += 1;
        }

        // ---- batch ----
        let n = if overfull {
            let r = rng.below(10);
            if r < 6 {
                rng.range(step_size + 1, 4 * step_size) as usize
            } else {
                rng.range(0, step_size) as usize
            }
        } else {
            let cap = step_size.min(40);
            // rarely a crowded step: several hundred instructions (batch-size dependent code paths)
            if step_size >= 1000 && rng.chance(0.02) {
                cs.crowded_batches += 1;
                rng.range(257, 700.min(step_size)) as usize
            } else {
            match rng.below(10) {
                0 => 0,
                1 | 2 => cap as usize,
                _ => rng.range(0, cap) as usize,
            }
            }
        };
        let n_exact = (1 + (rng.below(3) / 2) as usize).min(step_size as usize); // never more instructions than the step has time units
        let mut batch = if resume && step >= 2 { gen.exact_batch(&mut rng, &env, n_exact) } else { gen.batch(&mut rng, &env, n) };
        if gen.large && std::env::var("BVMON_TRACE").is_ok() {
            for a in 0..assets {
                let v = env.book(a).views();
                eprintln!("step {} asset {} bid_vol {} ask_vol {} bid_ask {:?} touch {:?} {:?} step_size {} trading {}", step, a, v.bid_vol, v.ask_vol, v.bid_ask, v.bid_best, v.ask_best, step_size, trading);
            }
            eprintln!("   batch {:?}", batch);
        }
        // optional off-grid submissions (never enter the batch: they are rejected at submission)
        let mut offgrid: Vec<(usize, Ins)> = Vec::new();
        if cfg.offgrid_rate > 0.0 {
            for pos in 0..=batch.len() {
                if rng.chance(cfg.offgrid_rate) {
                    let asset = rng.below(assets as u64) as usize;
                    let tick = gen.ticks[asset];
                    if tick > 1 {
                        let base = gen.price(&mut rng, asset);
                        let d = rng.range(1, tick as u64 - 1) as u32;
                        let p = base.checked_add(d).unwrap_or_else(|| base - d); // coarse grids: stay inside the price type
                        offgrid.push((pos, Ins::New { asset, bid: rng.chance(0.5), vol: rng.range(1, 50) as u32, trader: 5, price: Some(p) }));
                    }
                }
            }
        }
        if batch.is_empty() {
            cs.empty_batches += 1;
        }
        if batch.len() as u64 == step_size.min(40) && !overfull {
            cs.full_batches += 1;
        }
        if batch.len() as u64 > step_size {
            cs.overfull_batches += 1;
        }
        cs.instructions += batch.len() as u64;
        {
            // census: several instructions for one order / targets created in the same batch
            let first_new: Vec<usize> = (0..assets).map(|a| env.env_orders(a).len()).collect();
            let mut targets: Vec<(usize, usize)> = Vec::new();
            for ins in &batch {
                match ins {
                    Ins::New { .. } => cs.new_orders += 1,
                    Ins::Cancel { asset, id } => {
                        cs.cancels += 1;
                        if *id >= first_new[*asset] {
                            cs.same_batch_targets += 1;
                        }
                        if targets.contains(&(*asset, *id)) {
                            cs.multi_instruction_orders += 1;
                        }
                        targets.push((*asset, *id));
                    }
                    Ins::Modify { asset, id, .. } => {
                        cs.modifies += 1;
                        if *id >= first_new[*asset] {
                            cs.same_batch_targets += 1;
                        }
                        if targets.contains(&(*asset, *id)) {
                            cs.multi_instruction_orders += 1;
                        }
                        targets.push((*asset, *id));
                    }
                }
            }
        }

        // ---- submissions ----
        let start = env.time();
        let pre_orders_len: Vec<usize> = (0..assets).map(|a| env.env_orders(a).len()).collect();
        let mut new_ids: Vec<Option<usize>> = vec![None; batch.len()];
        let mut next_off = 0usize;
        for k in 0..=batch.len() {
            // off-grid submissions scheduled before instruction k
            while next_off < offgrid.len() && offgrid[next_off].0 == k {
                let ins = offgrid[next_off].1.clone();
                next_off += 1;
                let before = env.obs();
                let r = env.submit(&ins);
                let after = env.obs();
                cs.rejected_submissions += 1;
                if on(E_GRID) || on(E_INVIS) {
                    if !matches!(r, Some(Err(_))) {
                        return efail(step, "grid", "off_grid_submission_accepted", format!("{:?} -> {:?}", ins, r), &batch);
                    }
                    if before != after {
                        return efail(step, "grid", "rejected_submission_left_trace", format!("{:?} changed the environment", ins), &batch);
                    }
                }
                // the shadow must agree on rejection
                if let Ins::New { asset, bid, vol, trader, price } = &ins {
                    if shadow.books[*asset].create(*bid, *vol, *trader, *price).is_ok() && on(E_GRID) {
                        return efail(step, "grid", "plain_book_accepts_what_env_rejects", format!("{:?}", ins), &batch);
                    }
                }
            }
            if k == batch.len() {
                break;
            }
            let ins = batch[k].clone();
            let before = if on(E_INVIS) { Some(env.obs()) } else { None };
            let r = match catch(|| env.submit(&ins)) {
                Ok(r) => r,
                Err(p) => return efail(step, "abort", "panic_in_submission", format!("{:?}: {}", ins, p), &batch),
            };
            if let Ins::New { asset, bid, vol, trader, price } = &ins {
                let sid = shadow.books[*asset].create(*bid, *vol, *trader, *price);
                let _ = rshadow.books[*asset].create(*bid, *vol, *trader, *price);
                match (&r, &sid) {
                    (Some(Ok((ra, rid))), Ok(sid)) => {
                        if on(E_ASSET) || on(E_STEP) || on(E_INVIS) {
                            if *ra != *asset || *rid != *sid {
                                return efail(step, "asset", "order_id_not_asset_and_sequence", format!("{:?} returned ({}, {}) expected ({}, {})", ins, ra, rid, asset, sid), &batch);
                            }
                        }
                        new_ids[k] = Some(*rid);
                    }
                    _ => return efail(step, "grid", "on_grid_submission_rejected", format!("{:?} -> env {:?} plain book {:?}", ins, r, sid), &batch),
                }
            }
            if let Some(b) = before {
                cs.submissions_checked += 1;
                let after = env.obs();
                let mut exp = b.clone();
                if let Some(p) = exp.pending.as_mut() {
                    *p += 1;
                }
                if let Ins::New { asset, bid, vol, trader, price } = &ins {
                    let id = b.assets[*asset].env_orders.len();
                    let mut rec = ROrder { bid: *bid, status: NEW, arr: 0, end: UNSET, vol: *vol, start_vol: *vol, price: price.unwrap_or(if *bid { PMAX } else { 0 }), trader: *trader, id };
                    // arrival time of an unplaced order is not specified: take the observed one
                    if let Some(o) = after.assets[*asset].env_orders.get(id) {
                        rec.arr = o.arr;
                    }
                    exp.assets[*asset].env_orders.push(rec);
                    exp.assets[*asset].book.orders.push(rec);
                }
                if exp != after {
                    let mut what = String::new();
                    for a in 0..assets {
                        if exp.assets[a] != after.assets[a] {
                            let (x, y) = (&exp.assets[a], &after.assets[a]);
                            what = format!(
                                "asset {}: book: {}{}{}{}{}",
                                a,
                                crate::ops::obs_diff(&x.book, &y.book),
                                if x.env_orders != y.env_orders { "; get_orders differs" } else { "" },
                                if x.env_trades != y.env_trades { "; get_trades differs" } else { "" },
                                if x.series != y.series { "; recorded histories differ" } else { "" },
                                if x.cached_l2 != y.cached_l2 { "; cached level-2 differs" } else { "" }
                            );
                            break;
                        }
                    }
                    if exp.pending != after.pending {
                        what.push_str(&format!(" pending {:?} vs {:?}", exp.pending, after.pending));
                    }
                    return efail(step, "invisible", "submission_changed_observable_state", format!("{:?}: {}", ins, what), &batch);
                }
                // order(id) / order_status(id) agree with get_orders()
                let (a, id) = match &ins {
                    Ins::New { asset, .. } => (*asset, after.assets[*asset].env_orders.len() - 1),
                    Ins::Cancel { asset, id } | Ins::Modify { asset, id, .. } => (*asset, *id),
                };
                if id < after.assets[a].env_orders.len() {
                    let o = env.env_order(a, id);
                    if o != after.assets[a].env_orders[id] || env.env_order_status(a, id) != o.status {
                        return efail(step, "invisible", "order_getters_disagree", format!("order({}, {}) = {:?} vs get_orders {:?}", a, id, o, after.assets[a].env_orders[id]), &batch);
                    }
                }
                check_cached_l2(&env, step, "after a submission", &batch)?;
                let v = &b.assets[ins.asset()].book.views;
                if v.bid_vol > 0 || v.ask_vol > 0 {
                    let mut h = Fnv::new();
                    h.bytes(format!("{:?}{:?}", ins, v).as_bytes());
                    out.distinct_keys.push(h.finish());
                }
            }
        }
        if let (Some(p), true) = (env.pending(), on(E_STEP) || on(E_INVIS)) {
            // H1: the queue holds exactly the submitted instructions, in submission order
            let ok = p.len() == batch.len()
                && p.iter().zip(batch.iter()).all(|(x, y)| match (x, y) {
                    (Ins::New { asset: a1, .. }, Ins::New { asset: a2, .. }) => a1 == a2,
                    (a, b) => a == b,
                });
            if !ok {
                return efail(step, "step", "pending_queue_differs_from_submissions", format!("queue {:?}", p), &batch);
            }
        }

        // ---- a toggle between the submissions and the step: instructions queued under one flag
        //      are processed under the other ----
        if !gen.large && rng.chance(cfg.toggle_rate / 2.0) {
            trading = !trading;
            env.set_trading(trading);
            shadow.set_trading(trading);
            rshadow.set_trading(trading);
            cs.toggles += 1;
            cs.toggles_after_submission += 1;
            if !trading {
                ever_disabled = true;
            } else {
                reenabled = true;
            }
        }

        // ---- the step ----
        let hint = rand_shuffle_perm(&xr, batch.len());
        let trades_before: Vec<usize> = (0..assets).map(|a| env.env_trades(a).len()).collect();
        let status_before: Vec<Vec<u8>> = (0..assets).map(|a| env.env_orders(a).iter().map(|o| o.status).collect()).collect();
        if let Err(p) = catch(|| env.do_step(&mut xr)) {
            return efail(step, "abort", "panic_in_step", p, &batch);
        }
        let now = env.time();
        for a in 0..assets {
            let tr = env.env_trades(a);
            let new_tr = &tr[trades_before[a].min(tr.len())..];
            cs.trades += new_tr.len() as u64;
            if reenabled && trading {
                cs.trades_after_reenable += new_tr.len() as u64;
            }
            if on(E_FLAG) && !trading && !new_tr.is_empty() {
                return efail(step, "flag", "trade_while_disabled", format!("asset {}: {:?}", a, new_tr), &batch);
            }
        }
        if on(E_FLAG) && !trading {
            for (k, ins) in batch.iter().enumerate() {
                if let Ins::New { asset, price: None, .. } = ins {
                    let o = env.book(*asset).order(new_ids[k].unwrap());
                    cs.market_rejected += 1;
                    if o.status != REJECTED {
                        return efail(step, "flag", "market_order_not_rejected", format!("{:?} -> {:?}", ins, o), &batch);
                    }
                }
            }
        }

        if on(E_STEP) || on(E_ASSET) || on(E_OVERFULL) || on(E_FLAG) {
            if now != start + step_size {
                return efail(step, "step", "clock_after_step", format!("start {} step size {} clock {}", start, step_size, now), &batch);
            }
            for a in 0..assets {
                if env.book(a).time() != now {
                    return efail(step, "step", "asset_clock_differs", format!("asset {} at {} others at {}", a, env.book(a).time(), now), &batch);
                }
            }
            if let Some(p) = env.pending() {
                if !p.is_empty() {
                    return efail(step, "step", "queue_not_empty_after_step", format!("{} instructions left", p.len()), &batch);
                }
            }
            match infer_and_advance(&env, &mut shadow, &mut rshadow, &batch, &new_ids, start, step_size, &hint, 1_500_000) {
                Infer::Consistent { by_hint, candidates_tried, order } => {
                    if by_hint {
                        cs.schedules_by_hint += 1;
                    } else {
                        cs.schedules_by_search += 1;
                    }
                    cs.search_candidates += candidates_tried;
                    // an order cancelled by this step's only cancellation for it ends at the time of that instruction:
                    // start + its position in the schedule that reproduced the environment (also when the step carries
                    // more instructions than time units and the clock was set back at the end of an earlier step)
                    for (pos, k) in order.iter().enumerate() {
                        if let Ins::Cancel { asset, id } = &batch[*k] {
                            let n_cancels = batch.iter().filter(|x| matches!(x, Ins::Cancel { asset: a2, id: i2 } if a2 == asset && i2 == id)).count();
                            let was = status_before[*asset].get(*id).copied();
                            let o = env.env_order(*asset, *id);
                            if n_cancels == 1 && o.status == CANCELLED && was != Some(CANCELLED) && !(o.price == 0 || o.price == u32::MAX) {
                                cs.cancel_end_times_checked += 1;
                                if o.end != start + pos as u64 {
                                    return efail(step, "step", "end_time_of_cancelled_order", format!("order ({}, {}) was cancelled by the instruction processed at position {} (time {}), its record says it ended at {}: {:?}", asset, id, pos, start + pos as u64, o.end, o), &batch);
                                }
                            }
                        }
                    }
                    let mut h = Fnv::new();
                    for k in &order {
                        h.u32(*k as u32);
                        h.bytes(format!("{:?}", std::mem::discriminant(&batch[*k])).as_bytes());
                    }
                    h.u32(batch.len() as u32);
                    if batch.len() >= 2 {
                        out.distinct_keys.push(h.finish());
                    }
                }
                Infer::Violation(d) => return efail(step, "step", "no_consistent_schedule", d, &batch),
                Infer::Inconclusive(d) => return efail(step, "inconclusive", "schedule_search", d, &batch),
            }
            // per-step traded volume counts only this step's trades
            for a in 0..assets {
                let tr = env.env_trades(a);
                let s: u64 = tr[trades_before[a].min(tr.len())..].iter().map(|t| t.vol as u64).sum();
                if env.book(a).trade_vol() as u64 != s {
                    return efail(step, "step", "per_step_traded_volume", format!("asset {}: counter {} but this step's trades sum to {}", a, env.book(a).trade_vol(), s), &batch);
                }
                // ... and the environment's own per-step series carries exactly one entry per step, the last one for this step
                let tv = env.series(a).trade_vols;
                if tv.len() != step + 1 || *tv.last().unwrap() as u64 != s {
                    return efail(step, "step", "per_step_traded_volume", format!("asset {}: after {} steps the environment's per-step traded volumes are {:?} (last {} entries shown) but this step's trades sum to {}", a, step + 1, &tv[tv.len().saturating_sub(4)..], 4, s), &batch);
                }
            }
        }

        if on(E_INVIS) {
            check_cached_l2(&env, step, "after a step", &batch)?;
        }

        if on(E_OVERFULL) {
            // invariants on the environment's own book(s): nothing lost, views consistent, volume conserved
            for a in 0..assets {
                let b = env.book(a);
                let orders = b.orders();
                let exp = recompute_views(&orders, gen.ticks[a], E::LEVELS);
                let got = b.views();
                if exp != got {
                    return efail(step, "overfull", "views_inconsistent_after_overfull_step", format!("asset {}: expected {:?} observed {:?}", a, exp, got), &batch);
                }
                if let Some((qb, qa)) = b.queue() {
                    let mut stamps = 0;
                    for o in &orders {
                        if o.status == ACTIVE {
                            let q = if o.bid { &qb } else { &qa };
                            if !q.contains(&o.id) {
                                return efail(step, "overfull", "active_order_lost", format!("asset {}: {:?} is Active but not queued", a, o), &batch);
                            }
                            stamps += 1;
                        }
                    }
                    if qb.len() + qa.len() != stamps {
                        return efail(step, "overfull", "queue_size_differs", format!("asset {}", a), &batch);
                    }
                }
                // conservation: executed volume per order equals the sum of its logged trades
                let trs = b.trades();
                let mut exec = vec![0u64; orders.len()];
                for t in &trs {
                    exec[t.active] += t.vol as u64;
                    exec[t.passive] += t.vol as u64;
                }
                let tot: u64 = trs.iter().map(|t| 2 * t.vol as u64).sum();
                if exec.iter().sum::<u64>() != tot {
                    return efail(step, "overfull", "conservation", format!("asset {}", a), &batch);
                }
                // time-stamps of trades/arrivals beyond the step end show the overlap really happened
                if orders.iter().any(|o| o.status != NEW && o.arr >= now) {
                    cs.tie_like_stamps += 1;
                }
            }
        }

        // ---- C11: own rows read from the live book at the end of the step ----
        if on(E_REC) {
            for a in 0..assets {
                let v = env.book(a).views();
                let o = &mut own[a];
                o.bid_price.push(v.bid_ask.0);
                o.ask_price.push(v.bid_ask.1);
                o.bid_vol.push(v.bid_vol);
                o.ask_vol.push(v.ask_vol);
                if E::LEVELS > 0 {
                    o.touch_bid_vol.push(v.bid_levels[0].0);
                    o.touch_ask_vol.push(v.ask_levels[0].0);
                    o.touch_bid_n.push(v.bid_levels[0].1);
                    o.touch_ask_n.push(v.ask_levels[0].1);
                }
                for l in 0..E::LEVELS {
                    o.lvl_bid_vol[l].push(v.bid_levels[l].0);
                    o.lvl_ask_vol[l].push(v.ask_levels[l].0);
                    o.lvl_bid_n[l].push(v.bid_levels[l].1);
                    o.lvl_ask_n[l].push(v.ask_levels[l].1);
                }
                // traded volume of the step from the trade log: trades stamped within [start, start+step_size)
                let tv: u64 = env.env_trades(a).iter().filter(|t| t.t >= start && t.t < start + step_size).map(|t| t.vol as u64).sum();
                o.trade_vols.push(tv as u32);
                o.hist_bid_price = o.bid_price.clone();
                o.hist_ask_price = o.ask_price.clone();
                o.hist_bid_vol = o.bid_vol.clone();
                o.hist_ask_vol = o.ask_vol.clone();
                let got = env.series(a);
                cs.rows_compared += 1;
                if v.bid_vol != v.ask_vol && v.bid_best != v.ask_best {
                    cs.asymmetric_rows += 1;
                    let mut h = Fnv::new();
                    h.bytes(format!("{:?}", v).as_bytes());
                    out.distinct_keys.push(h.finish());
                }
                if E::LEVELS > 1 && (v.bid_levels[1..].iter().any(|x| x.0 > 0) || v.ask_levels[1..].iter().any(|x| x.0 > 0)) {
                    cs.deep_level_rows += 1;
                }
                if got != *o {
                    let mut what = Vec::new();
                    macro_rules! d { ($($f:ident),*) => { $( if got.$f != o.$f { what.push(format!("{}: recorded {:?} live {:?}", stringify!($f), got.$f, o.$f)); } )* } }
                    d!(bid_price, ask_price, bid_vol, ask_vol, touch_bid_vol, touch_ask_vol, touch_bid_n, touch_ask_n, lvl_bid_vol, lvl_ask_vol, lvl_bid_n, lvl_ask_n, trade_vols, hist_bid_price, hist_ask_price, hist_bid_vol, hist_ask_vol);
                    return efail(step, "records", "recorded_series_differ_from_live_book", format!("asset {} after step {} ({} entries expected): {}", a, step, step + 1, crate::bookcheck::truncate(&what.join("; "), 1500)), &batch);
                }
            }
        }
        if sample_trace.len() < 3 {
            sample_trace.push(serde_json::json!({"step": step, "start": start, "step_size": step_size, "trading": trading, "batch": batch, "processing_order_hint": hint}));
        }
        let _ = (ever_disabled, &pre_orders_len);
    }

    // ---- drain at the end of over-full sessions: every resting order must be executable ----
    if on(E_OVERFULL) {
        if !trading {
            env.set_trading(true);
            shadow.set_trading(true);
        }
        for side_bid in [true, false] {
            let mut batch = Vec::new();
            for a in 0..assets {
                let v = env.book(a).views();
                let vol = if side_bid { v.ask_vol } else { v.bid_vol };
                if vol > 0 {
                    batch.push(Ins::New { asset: a, bid: side_bid, vol, trader: 77, price: None });
                }
            }
            for ins in &batch {
                if let Ins::New { asset, bid, vol, trader, price } = ins {
                    let _ = env.submit(ins);
                    let _ = shadow.books[*asset].create(*bid, *vol, *trader, *price);
                }
            }
            if let Err(p) = catch(|| env.do_step(&mut xr)) {
                return efail(n_steps, "abort", "panic_in_step", p, &batch);
            }
            cs.drains += 1;
            for a in 0..assets {
                let orders = env.book(a).orders();
                if let Some(o) = orders.iter().find(|o| o.status == ACTIVE && o.bid != side_bid) {
                    return efail(n_steps, "overfull", "active_after_full_drain", format!("asset {}: {:?} still Active after a market order for the whole side", a, o), &batch);
                }
            }
        }
    }
    if out.sample.is_none() {
        out.sample = Some(serde_json::json!({"env": E::name(), "ticks": gen.ticks, "step_size": step_size, "t0": t0, "first_steps": sample_trace}));
    }
    Ok(())
}
