//! Market-level sessions: a real `Market<A, L>` driven next to A real stand-alone `OrderBook<L>`s
//! (differential, no reference model). Serves C14 and the market parts of C07 / C12 / C13.

use crate::model::*;
use crate::real::{conv_order, side_of, RealBook};
use crate::util::{catch, Fnv, Sm};
use bourse_book::types::Event;
use bourse_book::{Market, OrderBook};
use serde::{Deserialize, Serialize};

pub const MK_ASSET: u32 = 1; // C14
pub const MK_RELOAD: u32 = 2; // C07
pub const MK_GRID: u32 = 4; // C12
pub const MK_FLAG: u32 = 8; // C13
pub const MK_LEDGER: u32 = 16; // C03: ledger audit per asset, independent of the stand-alone books; frequent counter resets

#[derive(Clone, Debug, Serialize, Deserialize)]
pub struct MarketCfg {
    pub type_idx: usize,
    pub flags: u32,
    pub sub_seed: u64,
    pub n_ops: usize,
    pub stop_after: Option<usize>,
}

#[derive(Clone, Debug, Serialize)]
pub struct MarketFailure {
    pub op_index: usize,
    pub monitor: String,
    pub kind: String,
    pub detail: String,
    pub last_ops: Vec<String>,
}

#[derive(Clone, Debug, Default, Serialize)]
pub struct MarketCensus {
    pub sessions: u64,
    pub ops: u64,
    pub creations: u64,
    pub rejected_creations: u64,
    pub trades: u64,
    pub cancels: u64,
    pub modifies: u64,
    pub events: u64,
    pub toggles: u64,
    pub ops_while_disabled: u64,
    pub market_rejected: u64,
    pub reloads: u64,
    pub fork_comparisons: u64,
    pub shared_local_ids_with_different_contents: u64,
    pub sessions_where_2_assets_share_ids_and_trade: u64,
    pub all_asset_queries_checked: u64,
    pub counter_resets: u64,
    pub book_level_clock_moves: u64,
    pub ledger_audits: u64,
    pub ledger_trades_audited: u64,
    pub per_assets: [u64; 6],
}

impl MarketCensus {
    pub fn merge(&mut self, o: &MarketCensus) {
        macro_rules! add { ($($f:ident),*) => { $( self.$f += o.$f; )* } }
        add!(sessions, ops, creations, rejected_creations, trades, cancels, modifies, events, toggles, ops_while_disabled, market_rejected, reloads, fork_comparisons, shared_local_ids_with_different_contents, sessions_where_2_assets_share_ids_and_trade, all_asset_queries_checked, counter_resets, book_level_clock_moves, ledger_audits, ledger_trades_audited);
        for i in 0..6 {
            self.per_assets[i] += o.per_assets[i];
        }
    }
}

fn mfail<T>(i: usize, monitor: &str, kind: &str, detail: String, log: &[String]) -> Result<T, MarketFailure> {
    let n = log.len();
    Err(MarketFailure { op_index: i, monitor: monitor.into(), kind: kind.into(), detail, last_ops: log[n.saturating_sub(12)..].to_vec() })
}

fn compare_all<const A: usize, const L: usize>(m: &Market<A, L>, sh: &[OrderBook<L>], i: usize, log: &[String], cs: &mut MarketCensus, check_arrays: bool) -> Result<(), MarketFailure> {
    for a in 0..A {
        let mo = m.get_order_book(a).obs();
        let so = sh[a].obs();
        if mo != so {
            return mfail(i, "asset", "asset_differs_from_standalone_book", format!("asset {}: {}", a, crate::ops::obs_diff(&so, &mo)), log);
        }
        // per-asset queries through the market
        let mos: Vec<ROrder> = m.get_orders(a).into_iter().map(conv_order).collect();
        if mos != so.orders {
            return mfail(i, "asset", "get_orders_differs", format!("asset {}", a), log);
        }
        for o in &so.orders {
            if conv_order(m.order((a, o.id))) != *o {
                return mfail(i, "asset", "order_lookup_differs", format!("order(({}, {})) = {:?} expected {:?}", a, o.id, conv_order(m.order((a, o.id))), o), log);
            }
        }
    }
    if check_arrays {
        cs.all_asset_queries_checked += 1;
        let tv = m.get_trade_vols();
        let bv = m.bid_vols();
        let bbv = m.bid_best_vols();
        let bbo = m.bid_best_vol_and_orders();
        let bl = m.bid_levels();
        let av = m.ask_vols();
        let abv = m.ask_best_vols();
        let abo = m.ask_best_vol_and_orders();
        let al = m.ask_levels();
        let ba = m.bid_asks();
        let l2 = m.level_2_data();
        for a in 0..A {
            let b = &sh[a];
            let v = b.views();
            let ok = tv[a] == b.get_trade_vol()
                && bv[a] == v.bid_vol
                && bbv[a] == v.bid_best_vol
                && bbo[a] == v.bid_best
                && bl[a].to_vec() == v.bid_levels
                && av[a] == v.ask_vol
                && abv[a] == v.ask_best_vol
                && abo[a] == v.ask_best
                && al[a].to_vec() == v.ask_levels
                && ba[a] == v.bid_ask
                && [l2[a].bid_price, l2[a].ask_price, l2[a].bid_vol, l2[a].ask_vol] == v.l2_head
                && l2[a].bid_price_levels.to_vec() == v.l2_bid
                && l2[a].ask_price_levels.to_vec() == v.l2_ask;
            if !ok {
                return mfail(
                    i,
                    "asset",
                    "all_asset_query_not_in_asset_order",
                    format!("asset {}: trade_vols {:?} bid_vols {:?} bid_best_vols {:?} bid_best {:?} ask_vols {:?} ask_best_vols {:?} ask_best {:?} bid_asks {:?} vs stand-alone views {:?}", a, tv, bv, bbv, bbo, av, abv, abo, ba, v),
                    log,
                );
            }
        }
        if m.get_time() != sh[0].get_time() {
            return mfail(i, "asset", "market_time", format!("{} vs {}", m.get_time(), sh[0].get_time()), log);
        }
    }
    Ok(())
}

pub fn market_session<const A: usize, const L: usize>(cfg: &MarketCfg, cs: &mut MarketCensus, keys: &mut Vec<u64>, sample: &mut Option<serde_json::Value>, scratch: &str) -> Result<(), MarketFailure> {
    let on = |f: u32| cfg.flags & f != 0;
    let mut rng = Sm::derive(cfg.sub_seed, 0x3A4);
    let ticks: [u32; A] = core::array::from_fn(|_| rng.range(1, 10) as u32);
    let t0 = rng.below(1000);
    let mut trading = !rng.chance(if on(MK_FLAG) { 0.3 } else { 0.05 });
    let mut m: Market<A, L> = Market::new(t0, ticks, trading);
    let mut sh: Vec<OrderBook<L>> = (0..A).map(|a| OrderBook::<L>::new(t0, ticks[a], trading)).collect();
    let centers: Vec<u64> = (0..A).map(|_| rng.range(20, 3000)).collect();
    let half = rng.range(1, 6);
    let mut log: Vec<String> = Vec::new();
    let mut t = t0;
    cs.sessions += 1;
    cs.per_assets[A.min(5)] += 1; // index 5 = wide markets (12 and 66 assets)
    let mut traded_assets = vec![false; A];
    let mut shared_ids = false;
    let mut mixed_flags = false;
    // C03 through the market wrapper: the harness's own copy of every asset's trade log and the index of the first
    // trade after the last counter reset it issued for that asset
    let mut led_log: Vec<Vec<RTrade>> = vec![Vec::new(); A];
    let mut led_from: Vec<usize> = vec![0; A];
    let mut tk: Vec<u64> = vec![t0; A]; // each asset's own clock as set by the harness

    let price = |rng: &mut Sm, a: usize| -> u32 {
        let c = centers[a];
        (rng.range(c.saturating_sub(half).max(1), c + half) * ticks[a] as u64) as u32
    };

    for i in 0..cfg.n_ops {
        if let Some(s) = cfg.stop_after {
            if i > s {
                break;
            }
        }
        cs.ops += 1;
        if !trading {
            cs.ops_while_disabled += 1;
        }
        let a = rng.below(A as u64) as usize;
        let n_orders = sh[a].get_orders().len();
        let actives: Vec<usize> = sh[a].get_orders().iter().filter(|o| o.status == bourse_book::types::Status::Active).map(|o| o.order_id).collect();
        let pick_id = |rng: &mut Sm| -> Option<usize> {
            if n_orders == 0 {
                None
            } else if !actives.is_empty() && rng.chance(0.75) {
                Some(*rng.pick(&actives))
            } else {
                Some(rng.below(n_orders as u64) as usize)
            }
        };
        // clock: advance before most operations (disciplined clock; one shared clock for all assets)
        if rng.chance(0.8) {
            t += rng.range(1, 5);
            let _ = m.set_time(t);
            for b in sh.iter_mut() {
                b.set_time(t);
            }
            tk.iter_mut().for_each(|x| *x = t);
        } else if A >= 2 && rng.chance(0.3) {
            // one asset's book advanced on its own (through get_order_book_mut): the books' clocks differ until the next
            // market-wide set_time; nothing else about any asset may change, and reloads must keep every book's own clock
            t += rng.range(1, 4);
            log.push(format!("asset {} book-level set_time {}", a, t));
            m.get_order_book_mut(a).set_time(t);
            sh[a].set_time(t);
            tk[a] = t;
            cs.book_level_clock_moves += 1;
        }
        let trades_before: Vec<usize> = (0..A).map(|k| sh[k].get_trades().len()).collect();
        let r = rng.below(100);
        let res = catch(|| -> Result<(), MarketFailure> {
            if r < 45 {
                // creation (maybe off-grid), via create_and_place or create + later place
                let bid = rng.chance(0.5);
                let vol = rng.range(1, 80) as u32;
                let trader = rng.below(40) as u32;
                let market_order = rng.chance(0.12);
                let mut p = if market_order { None } else { Some(price(&mut rng, a)) };
                let offgrid = on(MK_GRID) && !market_order && ticks[a] > 1 && rng.chance(0.25);
                if offgrid {
                    p = Some(p.unwrap() + rng.range(1, ticks[a] as u64 - 1) as u32);
                }
                let place_now = rng.chance(0.8);
                log.push(format!("create{} asset {} bid {} vol {} price {:?}", if place_now { "_and_place" } else { "" }, a, bid, vol, p));
                let before = if offgrid { Some((0..A).map(|k| m.get_order_book(k).obs()).collect::<Vec<_>>()) } else { None };
                let (mr, sr) = if place_now {
                    (m.create_and_place_order(a, side_of(bid), vol, trader, p), sh[a].create_and_place_order(side_of(bid), vol, trader, p))
                } else {
                    (m.create_order(a, side_of(bid), vol, trader, p), sh[a].create_order(side_of(bid), vol, trader, p))
                };
                cs.creations += 1;
                match (mr, sr) {
                    (Ok((ma, mid)), Ok(sid)) => {
                        if offgrid {
                            return mfail(i, "grid", "off_grid_creation_accepted", format!("price {:?} tick {}", p, ticks[a]), &log);
                        }
                        if ma != a || mid != sid {
                            return mfail(i, "asset", "order_id_not_asset_and_sequence", format!("returned ({}, {}) expected ({}, {})", ma, mid, a, sid), &log);
                        }
                    }
                    (Err(_), Err(_)) => {
                        cs.rejected_creations += 1;
                        if !offgrid {
                            return mfail(i, "grid", "on_grid_creation_rejected", format!("price {:?} tick {}", p, ticks[a]), &log);
                        }
                        let after: Vec<_> = (0..A).map(|k| m.get_order_book(k).obs()).collect();
                        if Some(after) != before {
                            return mfail(i, "grid", "rejected_creation_left_trace", "a rejected creation changed the market".into(), &log);
                        }
                    }
                    (x, y) => return mfail(i, "asset", "creation_result_differs", format!("market {:?} stand-alone {:?}", x.map_err(|e| e.to_string()), y.map_err(|e| e.to_string())), &log),
                }
            } else if r < 55 {
                if let Some(id) = pick_id(&mut rng) {
                    log.push(format!("place ({}, {})", a, id));
                    if rng.chance(0.5) {
                        let _ = m.place_order((a, id));
                    } else {
                        cs.events += 1;
                        let _ = m.process_event(Event::New { order_id: (a, id) });
                    }
                    sh[a].place_order(id);
                }
            } else if r < 70 {
                if let Some(id) = pick_id(&mut rng) {
                    cs.cancels += 1;
                    log.push(format!("cancel ({}, {})", a, id));
                    if rng.chance(0.5) {
                        let _ = m.cancel_order((a, id));
                    } else {
                        cs.events += 1;
                        let _ = m.process_event(Event::Cancellation { order_id: (a, id) });
                    }
                    sh[a].cancel_order(id);
                }
            } else if r < 88 {
                if let Some(id) = pick_id(&mut rng) {
                    cs.modifies += 1;
                    let mut np = if rng.chance(0.6) { Some(price(&mut rng, a)) } else { None };
                    if on(MK_GRID) && np.is_some() && ticks[a] > 1 && rng.chance(0.3) {
                        np = Some(np.unwrap() + rng.range(1, ticks[a] as u64 - 1) as u32);
                    }
                    let nv = if rng.chance(0.7) { Some(rng.range(1, 90) as u32) } else { None };
                    log.push(format!("modify ({}, {}) price {:?} vol {:?}", a, id, np, nv));
                    match rng.below(3) {
                        0 => {
                            let _ = m.modify_order((a, id), np, nv);
                        }
                        1 => {
                            cs.events += 1;
                            let _ = m.process_event(Event::Modify { order_id: (a, id), new_price: np, new_vol: nv });
                        }
                        _ => {
                            let _ = m.get_order_book_mut(a).modify_order(id, np, nv);
                        }
                    }
                    sh[a].modify_order(id, np, nv);
                }
            } else if r < 93 {
                trading = if rng.chance(0.85) { !trading } else { trading };
                mixed_flags = false;
                cs.toggles += 1;
                log.push(format!("set trading {}", trading));
                let before: Vec<_> = (0..A).map(|k| m.get_order_book(k).obs()).collect();
                if trading {
                    let _ = m.enable_trading();
                } else {
                    let _ = m.disable_trading();
                }
                for b in sh.iter_mut() {
                    if trading {
                        b.enable_trading()
                    } else {
                        b.disable_trading()
                    }
                }
                if on(MK_FLAG) {
                    for k in 0..A {
                        let mut af = m.get_order_book(k).obs();
                        if let Some(f) = af.trading {
                            if f != trading {
                                return mfail(i, "flag", "toggle_not_fanned_out", format!("asset {} has trading={} after set to {}", k, f, trading), &log);
                            }
                        }
                        af.trading = before[k].trading;
                        if af != before[k] {
                            return mfail(i, "flag", "toggle_changed_state", format!("asset {}", k), &log);
                        }
                    }
                }
            } else if r < 94 && (on(MK_FLAG) || on(MK_ASSET)) {
                // toggle ONE asset's book directly, then (usually) the whole market: the market-level
                // switch must reach every asset whatever the individual flags were
                let on_off = rng.chance(0.5);
                log.push(format!("asset {} book-level set trading {}", a, on_off));
                if on_off {
                    m.get_order_book_mut(a).enable_trading();
                    sh[a].enable_trading();
                } else {
                    m.get_order_book_mut(a).disable_trading();
                    sh[a].disable_trading();
                }
                if rng.chance(0.8) {
                    trading = if rng.chance(0.5) { on_off } else { !on_off };
                    log.push(format!("set trading {}", trading));
                    if trading {
                        let _ = m.enable_trading();
                    } else {
                        let _ = m.disable_trading();
                    }
                    for b in sh.iter_mut() {
                        if trading {
                            b.enable_trading()
                        } else {
                            b.disable_trading()
                        }
                    }
                    cs.toggles += 1;
                    for k in 0..A {
                        if let Some(f) = m.get_order_book(k).trading_flag() {
                            if f != trading {
                                return mfail(i, "flag", "toggle_not_fanned_out", format!("asset {} has trading={} after the market was set to {}", k, f, trading), &log);
                            }
                        }
                    }
                } else {
                    // flags now differ between assets: the per-market `trading` notion no longer applies
                    mixed_flags = true;
                }
            } else if r < 95 || (on(MK_LEDGER) && r < 97) {
                if on(MK_LEDGER) && rng.chance(0.4) {
                    // one asset's counter reset through its own book
                    log.push(format!("asset {} book-level reset trade vol", a));
                    m.get_order_book_mut(a).reset_trade_vol();
                    sh[a].reset_trade_vol();
                    led_from[a] = sh[a].get_trades().len();
                } else {
                    log.push("reset trade vols".into());
                    let _ = m.reset_trade_vols();
                    for (k, b) in sh.iter_mut().enumerate() {
                        b.reset_trade_vol();
                        led_from[k] = b.get_trades().len();
                    }
                }
                cs.counter_resets += 1;
            } else if on(MK_RELOAD) || r < 97 {
                // snapshot + reload through one of four routes
                let route = rng.below(4);
                cs.reloads += 1;
                log.push(format!("reload route {}", route));
                let loaded: Result<Market<A, L>, String> = match route {
                    0 => serde_json::from_str(&serde_json::to_string(&m).unwrap()).map_err(|e| e.to_string()),
                    1 => serde_json::from_str(&serde_json::to_string_pretty(&m).unwrap()).map_err(|e| e.to_string()),
                    x => {
                        let path = format!("{}/market-{:?}.json", scratch, std::thread::current().id());
                        let l = match m.save_json(&path, x == 3) {
                            Ok(()) => Market::<A, L>::load_json(&path).map_err(|e| e.to_string()),
                            Err(e) => Err(e.to_string()),
                        };
                        l
                    }
                };
                match loaded {
                    Ok(l) => {
                        if on(MK_RELOAD) {
                            for k in 0..A {
                                cs.fork_comparisons += 1;
                                let (x, y) = (m.get_order_book(k).obs(), l.get_order_book(k).obs());
                                if x != y {
                                    return mfail(i, "reload", "reloaded_market_differs", format!("asset {}: {}", k, crate::ops::obs_diff(&x, &y)), &log);
                                }
                            }
                        }
                        // continue on the reloaded object: every later comparison with the never
                        // serialised stand-alone books checks that it behaves like the original
                        m = l;
                    }
                    Err(e) => return mfail(i, "reload", "reload_error", e, &log),
                }
            }
            Ok(())
        });
        match res {
            Ok(Ok(())) => {}
            Ok(Err(f)) => return Err(f),
            Err(p) => return mfail(i, "abort", "panic_in_operation", p, &log),
        }
        for k in 0..A {
            let n_new = sh[k].get_trades().len() - trades_before[k];
            cs.trades += n_new as u64;
            if n_new > 0 {
                traded_assets[k] = true;
                if on(MK_FLAG) && !trading && !mixed_flags && r < 88 {
                    return mfail(i, "flag", "trade_while_disabled", format!("asset {}", k), &log);
                }
            }
        }
        if on(MK_FLAG) && !trading && !mixed_flags {
            // market orders are rejected
            if let Some(o) = sh[a].get_orders().last() {
                if r < 45 && o.arr_time == tk[a] && (o.price == PMAX && matches!(o.side, bourse_book::types::Side::Bid) || o.price == 0) && o.status != bourse_book::types::Status::New {
                    cs.market_rejected += 1;
                    if o.status != bourse_book::types::Status::Rejected {
                        return mfail(i, "flag", "market_order_not_rejected", format!("{:?}", conv_order(o)), &log);
                    }
                }
            }
        }
        if on(MK_LEDGER) {
            let tvs = m.get_trade_vols();
            for k in 0..A {
                let tr: Vec<RTrade> = m.get_order_book(k).get_trades().iter().map(crate::real::conv_trade).collect();
                if tr.len() < led_log[k].len() || tr[..led_log[k].len()] != led_log[k][..] {
                    return mfail(i, "ledger", "logged_trade_changed", format!("asset {}: an existing trade record changed or disappeared", k), &log);
                }
                let orders = m.get_orders(k);
                for x in &tr[led_log[k].len()..] {
                    let (act, pas) = (conv_order(orders[x.active]), conv_order(orders[x.passive]));
                    let admits = if act.bid { x.price <= act.price } else { x.price >= act.price };
                    if x.t != tk[k] || x.vol == 0 || act.bid == pas.bid || x.price != pas.price || x.bid != pas.bid || !admits || k != a {
                        return mfail(i, "ledger", "trade_record", format!("asset {} (operation on asset {}) at t={}: {:?} active {:?} passive {:?}", k, a, t, x, act, pas), &log);
                    }
                    cs.ledger_trades_audited += 1;
                }
                led_log[k] = tr;
                let since: u64 = led_log[k][led_from[k].min(led_log[k].len())..].iter().map(|x| x.vol as u64).sum();
                if tvs[k] as u64 != since || m.get_order_book(k).get_trade_vol() as u64 != since {
                    return mfail(i, "ledger", "counter_differs_from_log", format!("asset {}: counter {} (book getter {}) but the trades logged since the last reset sum to {}", k, tvs[k], m.get_order_book(k).get_trade_vol(), since), &log);
                }
            }
            cs.ledger_audits += 1;
        }
        compare_all(&m, &sh, i, &log, cs, i % 3 == 0 || i + 1 == cfg.n_ops)?;
        // distinct key: same local id present in >= 2 assets with different contents
        if A >= 2 {
            let n0 = sh[0].get_orders().len();
            let n1 = sh[1].get_orders().len();
            if n0 > 0 && n1 > 0 {
                let k = n0.min(n1) - 1;
                let (x, y) = (conv_order(sh[0].get_orders()[k]), conv_order(sh[1].get_orders()[k]));
                if x != y {
                    cs.shared_local_ids_with_different_contents += 1;
                    shared_ids = true;
                }
            }
        }
    }
    if shared_ids && traded_assets.iter().filter(|x| **x).count() >= 2 {
        cs.sessions_where_2_assets_share_ids_and_trade += 1;
        let mut h = Fnv::new();
        for l in &log {
            h.bytes(l.as_bytes());
        }
        keys.push(h.finish());
    } else if A == 1 || on(MK_GRID) || on(MK_FLAG) || on(MK_RELOAD) || on(MK_LEDGER) {
        let mut h = Fnv::new();
        for l in &log {
            h.bytes(l.as_bytes());
        }
        keys.push(h.finish());
    }
    if sample.is_none() {
        *sample = Some(serde_json::json!({"market": format!("Market<{},{}>", A, L), "ticks": ticks.to_vec(), "first_ops": log.iter().take(25).collect::<Vec<_>>()}));
    }
    Ok(())
}

#[macro_export]
macro_rules! with_market {
    ($idx:expr, $f:ident ( $($arg:expr),* )) => {
        match $idx {
            0 => $f::<1, 10>($($arg),*),
            1 => $f::<2, 3>($($arg),*),
            2 => $f::<3, 5>($($arg),*),
            3 => $f::<4, 2>($($arg),*),
            4 => $f::<2, 10>($($arg),*),
            5 => $f::<4, 10>($($arg),*),
            6 => $f::<12, 2>($($arg),*),
            _ => $f::<66, 1>($($arg),*),
        }
    };
}
pub const N_MARKET_TYPES: usize = 8;
/// wide markets (more assets than levels, more than 10 / 64 assets): a small share of the market sessions
pub const WIDE_MARKET_TYPES: [usize; 2] = [6, 7];
