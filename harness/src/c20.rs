//! C20 — derived agent sets vs the hand-written field-by-field sequence.

use crate::real::conv_order;
use crate::report::{floors, Ctx, Violation};
use crate::util::{catch, Distinct, Fnv, Sm};
use bourse_book::types::Side;
use bourse_de::agents::{Agent, MarketAgent, MomentumAgent, MomentumMarketAgent, MomentumParams, NoiseAgent, NoiseAgentParams, NoiseMarketAgent, RandomAgents, RandomMarketAgents};
use bourse_de::{Env, MarketEnv};
use rand::RngCore;
use rand_xoshiro::rand_core::SeedableRng;
use rand_xoshiro::Xoroshiro128StarStar;
use serde_json::json;
use std::cell::RefCell;

/// (field tag, address of env, number of orders in env at entry, first two generator words)
pub type LogEntry = (u32, usize, usize, u64, u64);

thread_local! {
    pub static LOG: RefCell<Vec<LogEntry>> = const { RefCell::new(Vec::new()) };
}

fn log_push(e: LogEntry) {
    LOG.with(|l| l.borrow_mut().push(e));
}
fn log_take() -> Vec<LogEntry> {
    LOG.with(|l| std::mem::take(&mut *l.borrow_mut()))
}

/// The generator handed to the sets: Xoroshiro128** whose *fallible* byte draw (`try_fill_bytes`) reports an error on every
/// third request when the seed is odd (a generator that can run dry is a legal `RngCore`). Every member must see exactly this
/// generator - a set that hands its members a wrapper shows up in what the fallible draw returns.
#[derive(Clone)]
pub struct TestRng {
    inner: Xoroshiro128StarStar,
    flaky: bool,
    tries: u32,
}
impl TestRng {
    pub fn new(seed: u64) -> Self {
        TestRng { inner: Xoroshiro128StarStar::seed_from_u64(seed), flaky: seed & 1 == 1, tries: 0 }
    }
}
impl RngCore for TestRng {
    fn next_u32(&mut self) -> u32 {
        self.inner.next_u32()
    }
    fn next_u64(&mut self) -> u64 {
        self.inner.next_u64()
    }
    fn fill_bytes(&mut self, dest: &mut [u8]) {
        self.inner.fill_bytes(dest)
    }
    fn try_fill_bytes(&mut self, dest: &mut [u8]) -> Result<(), rand::Error> {
        self.tries += 1;
        if self.flaky && self.tries % 3 == 0 {
            return Err(rand::Error::new("generator ran dry"));
        }
        self.inner.fill_bytes(dest);
        Ok(())
    }
}
/// what a member sees of one fallible 4-byte draw, folded into one word for the log
fn fallible_draw<R: RngCore>(rng: &mut R) -> u64 {
    let mut buf = [0xA5u8; 4];
    match rng.try_fill_bytes(&mut buf) {
        Ok(()) => u32::from_le_bytes(buf) as u64,
        Err(_) => 1 << 40,
    }
}

pub struct Probe {
    tag: u32,
}
impl Probe {
    pub fn new(tag: u32) -> Self {
        Probe { tag }
    }
}
impl Agent for Probe {
    fn update<R: RngCore>(&mut self, env: &mut Env, rng: &mut R) {
        let n = env.get_orders().len();
        log_push((self.tag, env as *const Env as usize, n, rng.next_u64(), rng.next_u64()));
        env.place_order(Side::Bid, self.tag + 1, self.tag, Some(100 + self.tag)).unwrap();
    }
}

/// A second probe type: one draw more, sells instead of buys.
pub struct Probe2 {
    tag: u32,
    calls: u32,
}
impl Probe2 {
    pub fn new(tag: u32) -> Self {
        Probe2 { tag, calls: 0 }
    }
}
impl Agent for Probe2 {
    fn update<R: RngCore>(&mut self, env: &mut Env, rng: &mut R) {
        let n = env.get_orders().len();
        self.calls += 1;
        let a = rng.next_u64();
        let b = rng.next_u64();
        let _ = rng.next_u32();
        let b = b ^ fallible_draw(rng).rotate_left(17);
        log_push((1000 + self.tag, env as *const Env as usize, n, a, b));
        env.place_order(Side::Ask, self.tag + self.calls, self.tag, Some(5000 + self.tag)).unwrap();
    }
}

/// Generic wrapper agents: field types of the form `Wrap<Probe>` / `crate::c20::MWrap<MProbe2>`
pub struct Wrap<A>(pub A);
impl<A: Agent> Agent for Wrap<A> {
    fn update<R: RngCore>(&mut self, env: &mut Env, rng: &mut R) {
        self.0.update(env, rng)
    }
}
pub struct MWrap<A>(pub A);
impl<A: MarketAgent> MarketAgent for MWrap<A> {
    fn update<R: RngCore, const M: usize, const N: usize>(&mut self, env: &mut MarketEnv<M, N>, rng: &mut R) {
        self.0.update(env, rng)
    }
}

/// Probes whose *type text* mentions marker / container / primitive type names (`PhantomData`, `Option`, `Vec`,
/// `()`, arrays, fn pointers, references): a derive that inspects field types textually must still update them.
pub struct Marked<T> {
    tag: u32,
    _m: std::marker::PhantomData<T>,
}
impl<T> Marked<T> {
    pub fn new(tag: u32) -> Self {
        Marked { tag, _m: std::marker::PhantomData }
    }
}
impl<T> Agent for Marked<T> {
    fn update<R: RngCore>(&mut self, env: &mut Env, rng: &mut R) {
        let n = env.get_orders().len();
        log_push((2000 + self.tag, env as *const Env as usize, n, rng.next_u64(), rng.next_u64()));
        env.place_order(Side::Bid, self.tag + 2, self.tag, Some(300 + self.tag)).unwrap();
    }
}
impl Agent for Box<Probe> {
    fn update<R: RngCore>(&mut self, env: &mut Env, rng: &mut R) {
        (**self).update(env, rng)
    }
}
/// `<Probe as SelfTy>::T` is `Probe` spelled as a qualified path
pub trait SelfTy {
    type T;
}
impl SelfTy for Probe {
    type T = Probe;
}
impl SelfTy for MProbe {
    type T = MProbe;
}
/// a type whose *name* merely contains a marker-type name
pub type PhantomDataAgent = Probe2;
pub struct MMarked<T> {
    tag: u32,
    _m: std::marker::PhantomData<T>,
}
impl<T> MMarked<T> {
    pub fn new(tag: u32) -> Self {
        MMarked { tag, _m: std::marker::PhantomData }
    }
}
impl<T> MarketAgent for MMarked<T> {
    fn update<R: RngCore, const M: usize, const N: usize>(&mut self, env: &mut MarketEnv<M, N>, rng: &mut R) {
        let a = (self.tag as usize) % M;
        let n = env.get_orders(a).len();
        log_push((2000 + self.tag, env as *const MarketEnv<M, N> as usize, n, rng.next_u64(), rng.next_u64()));
        env.place_order(a, Side::Bid, self.tag + 2, self.tag, Some(300 + self.tag)).unwrap();
    }
}
impl MarketAgent for Box<MProbe> {
    fn update<R: RngCore, const M: usize, const N: usize>(&mut self, env: &mut MarketEnv<M, N>, rng: &mut R) {
        (**self).update(env, rng)
    }
}
pub type MPhantomDataAgent = MProbe2;

pub struct MProbe {
    tag: u32,
}
impl MProbe {
    pub fn new(tag: u32) -> Self {
        MProbe { tag }
    }
}
impl MarketAgent for MProbe {
    fn update<R: RngCore, const M: usize, const N: usize>(&mut self, env: &mut MarketEnv<M, N>, rng: &mut R) {
        let a = (self.tag as usize) % M;
        let n = env.get_orders(a).len();
        log_push((self.tag, env as *const MarketEnv<M, N> as usize, n, rng.next_u64(), rng.next_u64()));
        env.place_order(a, Side::Bid, self.tag + 1, self.tag, Some(100 + self.tag)).unwrap();
    }
}

pub struct MProbe2 {
    tag: u32,
    calls: u32,
}
impl MProbe2 {
    pub fn new(tag: u32) -> Self {
        MProbe2 { tag, calls: 0 }
    }
}
impl MarketAgent for MProbe2 {
    fn update<R: RngCore, const M: usize, const N: usize>(&mut self, env: &mut MarketEnv<M, N>, rng: &mut R) {
        let a = (self.tag as usize + 1) % M;
        let n = env.get_orders(a).len();
        self.calls += 1;
        let x = rng.next_u64();
        let y = rng.next_u64();
        let _ = rng.next_u32();
        let y = y ^ fallible_draw(rng).rotate_left(17);
        log_push((1000 + self.tag, env as *const MarketEnv<M, N> as usize, n, x, y));
        env.place_order(a, Side::Ask, self.tag + self.calls, self.tag, Some(5000 + self.tag)).unwrap();
    }
}

// Built-in members come in parameter variants selected by the member's tag: ordinary, silent (all probabilities 0, so the
// member submits nothing but still has to be updated and to draw what it draws), empty (no traders) and saturated.
fn noise_params(v: u32) -> NoiseAgentParams {
    let (pl, pm, pc) = match v % 4 {
        1 => (0.0, 0.0, 0.0),
        3 => (1.0, 1.0, 1.0),
        _ => (0.6, 0.3, 0.3),
    };
    NoiseAgentParams { tick_size: 1, p_limit: pl, p_market: pm, p_cancel: pc, trade_vol: 10, price_dist_mu: 1.0, price_dist_sigma: 1.0 }
}
fn momentum_params(v: u32) -> MomentumParams {
    let (demand, ratio, pc) = match v % 4 {
        1 => (0.0, 0.0, 0.0),
        3 => (50.0, 1.0, 1.0),
        _ => (4.0, 1.0, 0.2),
    };
    MomentumParams { tick_size: 1, p_cancel: pc, trade_vol: 10, decay: 0.5, demand, scale: 0.5, order_ratio: ratio, price_dist_mu: 1.0, price_dist_sigma: 1.0 }
}
fn n_traders(v: u32) -> u16 {
    if v % 4 == 2 {
        0
    } else {
        3
    }
}
fn activity(v: u32) -> f32 {
    match v % 4 {
        1 => 0.0,
        3 => 1.0,
        _ => 0.7,
    }
}
pub fn new_random_v(t: u32) -> RandomAgents {
    RandomAgents::new(n_traders(t) as usize, (90, 120), (5, 15), 1, activity(t))
}
pub fn new_noise(t: u32) -> NoiseAgent {
    NoiseAgent::new(10_000 + t * 10, n_traders(t), noise_params(t))
}
pub fn new_momentum(t: u32) -> MomentumAgent {
    MomentumAgent::new(20_000 + t * 10, n_traders(t), momentum_params(t))
}
pub fn new_mrandom_v(a: usize, t: u32) -> RandomMarketAgents {
    RandomMarketAgents::new(a, n_traders(t) as usize, (90, 120), (5, 15), 1, activity(t))
}
pub fn new_mnoise(a: usize, t: u32) -> NoiseMarketAgent {
    NoiseMarketAgent::new(a, 10_000 + t * 10, n_traders(t), noise_params(t))
}
pub fn new_mmomentum(a: usize, t: u32) -> MomentumMarketAgent {
    MomentumMarketAgent::new(20_000 + t * 10, n_traders(t), a, momentum_params(t))
}

#[derive(Debug, Default)]
pub struct PairStats {
    pub probe_calls: u64,
    pub orders: u64,
    pub digest: u64,
}

pub struct EnvShape {
    pub name: &'static str,
    pub fields: usize,
    pub run: fn(u64, usize) -> Result<PairStats, String>,
}
pub struct MarketShape {
    pub name: &'static str,
    pub fields: usize,
    pub run: fn(u64, usize) -> Result<PairStats, String>,
}

fn compare_logs(derived: &[LogEntry], hand: &[LogEntry], env_d: usize, env_h: usize) -> Result<(), String> {
    if derived.len() != hand.len() {
        return Err(format!("derived update made {} probe calls, hand-written sequence {}: derived tags {:?} hand tags {:?}", derived.len(), hand.len(), derived.iter().map(|e| e.0).collect::<Vec<_>>(), hand.iter().map(|e| e.0).collect::<Vec<_>>()));
    }
    for (i, (d, h)) in derived.iter().zip(hand.iter()).enumerate() {
        if d.0 != h.0 {
            return Err(format!("call {}: derived updated field tag {} where the hand-written sequence updates {} (derived order {:?}, declaration order {:?})", i, d.0, h.0, derived.iter().map(|e| e.0).collect::<Vec<_>>(), hand.iter().map(|e| e.0).collect::<Vec<_>>()));
        }
        if d.1 != env_d || h.1 != env_h {
            return Err(format!("call {} (tag {}): field was handed a different environment object", i, d.0));
        }
        if d.2 != h.2 {
            return Err(format!("call {} (tag {}): saw {} orders in the environment, hand-written sequence saw {}", i, d.0, d.2, h.2));
        }
        if d.3 != h.3 || d.4 != h.4 {
            return Err(format!("call {} (tag {}): generator draws differ ({:x},{:x}) vs ({:x},{:x}) — the fields do not share one generator stream", i, d.0, d.3, d.4, h.3, h.4));
        }
    }
    Ok(())
}

pub fn run_env_pair<S>(seed: u64, rounds: usize, mut a: S, mut b: S, derived: fn(&mut S, &mut Env, &mut TestRng), hand: fn(&mut S, &mut Env, &mut TestRng)) -> Result<PairStats, String> {
    let mut e1: Env = Env::new(0, 1, 1000, true);
    let mut e2: Env = Env::new(0, 1, 1000, true);
    let mut r1 = TestRng::new(seed);
    let mut r2 = r1.clone();
    let mut st = PairStats::default();
    for (e, r) in [(&mut e1, &mut r1), (&mut e2, &mut r2)] {
        e.place_order(Side::Bid, 50, 1, Some(100)).unwrap();
        e.place_order(Side::Ask, 50, 1, Some(104)).unwrap();
        e.step(r);
    }
    let _ = log_take();
    for round in 0..rounds {
        derived(&mut a, &mut e1, &mut r1);
        let ld = log_take();
        hand(&mut b, &mut e2, &mut r2);
        let lh = log_take();
        compare_logs(&ld, &lh, &e1 as *const Env as usize, &e2 as *const Env as usize).map_err(|e| format!("round {}: {}", round, e))?;
        st.probe_calls += ld.len() as u64;
        let (o1, o2): (Vec<_>, Vec<_>) = (e1.get_orders().into_iter().map(conv_order).collect(), e2.get_orders().into_iter().map(conv_order).collect());
        if o1 != o2 {
            return Err(format!("round {}: environments differ after the update ({} vs {} orders)", round, o1.len(), o2.len()));
        }
        e1.step(&mut r1);
        e2.step(&mut r2);
        let (o1, o2): (Vec<_>, Vec<_>) = (e1.get_orders().into_iter().map(conv_order).collect(), e2.get_orders().into_iter().map(conv_order).collect());
        if o1 != o2 || e1.get_trades().len() != e2.get_trades().len() {
            return Err(format!("round {}: environments differ after the step", round));
        }
        st.orders = o1.len() as u64;
        let mut h = Fnv::new();
        h.bytes(format!("{:?}", o1).as_bytes());
        st.digest = h.finish();
    }
    if r1.next_u64() != r2.next_u64() {
        return Err("final generator states differ".into());
    }
    Ok(st)
}

pub fn run_market_pair<S>(
    seed: u64,
    rounds: usize,
    mut a: S,
    mut b: S,
    derived: fn(&mut S, &mut MarketEnv<2, 10>, &mut TestRng),
    hand: fn(&mut S, &mut MarketEnv<2, 10>, &mut TestRng),
) -> Result<PairStats, String> {
    let mut e1: MarketEnv<2, 10> = MarketEnv::new(0, [1, 1], 1000, true);
    let mut e2: MarketEnv<2, 10> = MarketEnv::new(0, [1, 1], 1000, true);
    let mut r1 = TestRng::new(seed);
    let mut r2 = r1.clone();
    let mut st = PairStats::default();
    for (e, r) in [(&mut e1, &mut r1), (&mut e2, &mut r2)] {
        for asset in 0..2 {
            e.place_order(asset, Side::Bid, 50, 1, Some(100)).unwrap();
            e.place_order(asset, Side::Ask, 50, 1, Some(104)).unwrap();
        }
        e.step(r);
    }
    let _ = log_take();
    let all = |e: &MarketEnv<2, 10>| -> Vec<crate::model::ROrder> { (0..2).flat_map(|x| e.get_orders(x).into_iter().map(conv_order).collect::<Vec<_>>()).collect() };
    for round in 0..rounds {
        derived(&mut a, &mut e1, &mut r1);
        let ld = log_take();
        hand(&mut b, &mut e2, &mut r2);
        let lh = log_take();
        compare_logs(&ld, &lh, &e1 as *const MarketEnv<2, 10> as usize, &e2 as *const MarketEnv<2, 10> as usize).map_err(|e| format!("round {}: {}", round, e))?;
        st.probe_calls += ld.len() as u64;
        if all(&e1) != all(&e2) {
            return Err(format!("round {}: environments differ after the update", round));
        }
        e1.step(&mut r1);
        e2.step(&mut r2);
        let o1 = all(&e1);
        if o1 != all(&e2) {
            return Err(format!("round {}: environments differ after the step", round));
        }
        st.orders = o1.len() as u64;
        let mut h = Fnv::new();
        h.bytes(format!("{:?}", o1).as_bytes());
        st.digest = h.finish();
    }
    if r1.next_u64() != r2.next_u64() {
        return Err("final generator states differ".into());
    }
    Ok(st)
}

pub fn c20(ctx: &Ctx) -> i32 {
    let env_shapes = crate::shapes_gen::env_shapes();
    let market_shapes = crate::shapes_gen::market_shapes();
    let seeds = ctx.tier.pick(600, 10_000);
    let rounds = 4;
    let mut violations = Vec::new();
    let mut evals = 0u64;
    let mut probe_calls = 0u64;
    let mut distinct = Distinct::new(1_000_000);
    let mut samples = Vec::new();
    let mut shapes_multi = 0u64;
    let mut rng = Sm::derive(ctx.seed, 0xC20);
    let mut all: Vec<(&'static str, usize, fn(u64, usize) -> Result<PairStats, String>, &'static str)> = Vec::new();
    for s in &env_shapes {
        all.push((s.name, s.fields, s.run, "AgentSet"));
    }
    for s in &market_shapes {
        all.push((s.name, s.fields, s.run, "MarketAgentSet"));
    }
    for (name, fields, run, derive) in &all {
        if *fields >= 2 {
            shapes_multi += 1;
        }
        for k in 0..seeds {
            let seed = rng.next();
            evals += 1;
            match catch(|| run(seed, rounds)) {
                Ok(Ok(st)) => {
                    probe_calls += st.probe_calls;
                    if *fields >= 2 {
                        let mut h = Fnv::new();
                        h.bytes(name.as_bytes());
                        h.u64(st.digest);
                        distinct.add(h.finish());
                    }
                    if k == 0 && samples.len() < 4 && *fields >= 3 {
                        samples.push(json!({"shape": name, "derive": derive, "fields": fields, "seed": seed, "rounds": rounds, "probe_calls": st.probe_calls, "orders_at_end": st.orders}));
                    }
                }
                Ok(Err(e)) => {
                    violations.push(Violation {
                        signature: format!("C20:derive:{}", derive),
                        summary: format!("derive({}) on shape {} ({} fields), seed {}: {}", derive, name, fields, seed, e),
                        replay: json!({"kind": "c20", "shape": name, "seed": seed, "rounds": rounds, "detail": e}),
                    });
                    break;
                }
                Err(p) => {
                    violations.push(Violation {
                        signature: format!("C20:derive:{}:panic", derive),
                        summary: format!("derive({}) on shape {}: panic {}", derive, name, p),
                        replay: json!({"kind": "c20", "shape": name, "seed": seed, "rounds": rounds, "detail": p}),
                    });
                    break;
                }
            }
        }
        if violations.len() >= 3 {
            break;
        }
    }
    let inconclusive = floors(&[("shapes_with_2+_fields", shapes_multi, 40), ("probe_calls", probe_calls, 5000)]);
    let cov = json!({
        "evaluations": evals,
        "distinct_nontrivial": distinct.len(),
        "rule": "cases = (struct shape, seed) pairs: 64 generated shapes per derive macro (six of them declared through a macro_rules helper so that field types arrive as `$t:ty` fragments; parenthesised, type-macro and qualified-path field types) (1..8 fields, probe agent types incl. generic ones whose type text mentions PhantomData / Option / Vec / arrays / fn pointers / references / unit, boxed probes and type aliases, repeated types, nested derived sets, the three built-in agent families in between), each run for 4 update+step rounds through the derived impl and through the hand-written field-by-field sequence from cloned generator states on fresh environments; compared call by call (field tag, identity of the environment object, orders visible at entry, first two generator words), then environments and final generator state; distinct = distinct (shape, final order list) hashes; non-trivial = shapes with at least 2 fields",
        "samples": samples,
        "shapes": all.len(),
        "shapes_with_2_or_more_fields": shapes_multi,
        "probe_calls_compared": probe_calls,
        "seeds_per_shape": seeds,
    });
    ctx.finish("exploration", cov, vec!["struct shapes are fixed at compile time (generated source committed with seed 20); the seeds of the runs vary with VERIF_SEED".into()], violations, inconclusive)
}

pub fn replay_c20(doc: &serde_json::Value) -> i32 {
    let name = doc["shape"].as_str().unwrap_or("");
    let seed = doc["seed"].as_u64().unwrap_or(0);
    let rounds = doc["rounds"].as_u64().unwrap_or(4) as usize;
    let mut runs: Vec<(&'static str, fn(u64, usize) -> Result<PairStats, String>)> = Vec::new();
    for s in crate::shapes_gen::env_shapes() {
        runs.push((s.name, s.run));
    }
    for s in crate::shapes_gen::market_shapes() {
        runs.push((s.name, s.run));
    }
    for (n, run) in runs {
        if n == name {
            return match catch(|| run(seed, rounds)) {
                Ok(Ok(_)) => {
                    println!("NOT-REPRODUCED property=C20");
                    0
                }
                other => {
                    println!("REPRODUCED property=C20 {:?}", other.map(|r| r.err()));
                    1
                }
            };
        }
    }
    2
}
