//! Supplementary screens (not registered checks): a tiny slice of the C01/C06/C07/C08 workloads, small enough to run
//! under Miri (`cargo +nightly miri run -- miri-slice <seed>`), where the interpreter watches the same executions for
//! undefined behaviour and leaks while the behavioural monitors judge them as usual.

use crate::bookcheck::run_guarded;
use crate::checks_env::run_session_guarded;
use crate::envsession::{EnvCensus, SessionCfg, SessionOut, E_REC, E_STEP};
use crate::gen::{Profile, RndGen};
use crate::ops::{Census, TiePolicy, M_ALL_BOOK};
use crate::util::Sm;

pub fn miri_slice(seed: u64, histories: usize, sessions: usize) -> i32 {
    let scratch = format!("{}/miri-slice-{}", std::env::var("BVMON_SCRATCH").unwrap_or_else(|_| std::env::temp_dir().to_string_lossy().into_owned()), seed);
    std::fs::create_dir_all(&scratch).ok();
    let mut ops = 0u64;
    let mut trades = 0u64;
    let mut bad = 0;
    for i in 0..histories {
        let mut p = Profile::full();
        p.ops = (18, 28);
        p.w_reload = 1; // in-memory JSON round trips
        p.levels = &[3];
        let mut g = RndGen::new(Sm::derive(seed, 0x3141 + i as u64), p);
        let h = g.history();
        let mut cs = Census::default();
        match run_guarded(&h, M_ALL_BOOK, TiePolicy::StopOnTie, &scratch, &mut cs) {
            Ok(()) => {}
            Err(f) => {
                println!("MONITOR-FAILURE history {}: {} / {}: {}", i, f.monitor, f.kind, f.detail);
                bad += 1;
            }
        }
        ops += cs.ops;
        trades += cs.trades;
    }
    let mut steps = 0u64;
    for i in 0..sessions {
        let cfg = SessionCfg { env_idx: i % 2, flags: E_STEP | E_REC, sub_seed: Sm::derive(seed, 0x2718 + i as u64).next(), max_steps: 3, toggle_rate: 0.1, offgrid_rate: 0.0, stop_after: None };
        let mut cs = EnvCensus::default();
        let mut out = SessionOut { distinct_keys: Vec::new(), sample: None };
        if let Err(f) = run_session_guarded(&cfg, &mut cs, &mut out) {
            if f.monitor != "inconclusive" {
                println!("MONITOR-FAILURE session {}: {} / {}: {}", i, f.monitor, f.kind, f.detail);
                bad += 1;
            }
        }
        steps += cs.steps;
    }
    std::fs::remove_dir_all(&scratch).ok();
    println!("SLICE seed={} histories={} book_ops={} trades={} env_sessions={} env_steps={} monitor_failures={}", seed, histories, ops, trades, sessions, steps, bad);
    if bad > 0 {
        1
    } else {
        0
    }
}
