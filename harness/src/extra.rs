//! Supplementary screens (not registered checks): a tiny slice of the C01/C06/C07/C08 workloads, small enough to run
//! under Miri (`cargo +nightly miri run -- miri-slice <seed>`), where the interpreter watches the same executions for
//! undefined behaviour and leaks while the behavioural monitors judge them as usual.

use crate::bookcheck::run_guarded;
use crate::checks_env::run_session_guarded;
use crate::envsession::{EnvCensus, SessionCfg, SessionOut, E_REC, E_STEP};
use crate::gen::{Profile, RndGen};
use crate::ops::{Census, TiePolicy, M_ALL_BOOK};
use crate::util::Sm;

pub fn miri_slice(seed: u64, histories: usize, sessions: usize) -> i32 {
    let scratch = format!("{}/miri-slice-{}", std::env::var("BVMON_SCRATCH").unwrap_or_else(|_| std::env::temp_dir().to_string_lossy().into_owned()), seed);
    std::fs::create_dir_all(&scratch).ok();
    let mut ops = 0u64;
    let mut trades = 0u64;
    let mut bad = 0;
    for i in 0..histories {
        let mut p = Profile::full();
        p.ops = (18, 28);
        p.w_reload = 1; // in-memory JSON round trips
        p.levels = &[3];
        let mut g = RndGen::new(Sm::derive(seed, 0x3141 + i as u64), p);
        let h = g.history();
        let mut cs = Census::default();
        match run_guarded(&h, M_ALL_BOOK, TiePolicy::StopOnTie, &scratch, &mut cs) {
            Ok(()) => {}
            Err(f) => {
                println!("MONITOR-FAILURE history {}: {} / {}: {}", i, f.monitor, f.kind, f.detail);
                bad += 1;
            }
        }
        ops += cs.ops;
        trades += cs.trades;
    }
    let mut steps = 0u64;
    for i in 0..sessions {
        let cfg = SessionCfg { env_idx: i % 2, flags: E_STEP | E_REC, sub_seed: Sm::derive(seed, 0x2718 + i as u64).next(), max_steps: 3, toggle_rate: 0.1, offgrid_rate: 0.0, stop_after: None };
        let mut cs = EnvCensus::default();
        let mut out = SessionOut { distinct_keys: Vec::new(), sample: None };
        if let Err(f) = run_session_guarded(&cfg, &mut cs, &mut out) {
            if f.monitor != "inconclusive" {
                println!("MONITOR-FAILURE session {}: {} / {}: {}", i, f.monitor, f.kind, f.detail);
                bad += 1;
            }
        }
        steps += cs.steps;
    }
    std::fs::remove_dir_all(&scratch).ok();
    println!("SLICE seed={} histories={} book_ops={} trades={} env_sessions={} env_steps={} monitor_failures={}", seed, histories, ops, trades, sessions, steps, bad);
    if bad > 0 {
        1
    } else {
        0
    }
}

// ---------------------------------------------------------------------------------------------------------------
// Long histories (part of C01): tens of thousands of orders and trades on one book, so that ids, the trade log and the
// cumulative counters pass 2^16, judged against the reference engine at checkpoints and after a final drain. The
// per-operation runner snapshots the whole book after every call (quadratic), which bounds its histories to hundreds
// of operations; this driver trades observation density for length.
// ---------------------------------------------------------------------------------------------------------------
use crate::model::{RefBook, ACTIVE};
use crate::real::RealBook;

pub struct LongOut {
    pub ops: u64,
    pub orders: u64,
    pub trades: u64,
    pub checkpoints: u64,
    pub max_resting: u64,
}

pub fn long_history<B: RealBook>(seed: u64, n_ops: usize) -> Result<LongOut, String> {
    let mut rng = Sm::derive(seed, 0x10_46);
    let tick = rng.range(1, 10) as u32;
    let t0 = rng.below(1000);
    let mut real = B::new(t0, tick, true);
    let mut rf = RefBook::new(t0, tick, true);
    let center = rng.range(200, 50_000);
    let mut t = t0;
    let mut out = LongOut { ops: 0, orders: 0, trades: 0, checkpoints: 0, max_resting: 0 };
    let compare = |real: &B, rf: &RefBook, at: usize| -> Result<(), String> {
        let (ro, rt) = (real.orders(), real.trades());
        if ro.len() != rf.orders.len() || rt.len() != rf.trades.len() {
            return Err(format!("after {} operations: {} orders / {} trades, reference has {} / {}", at, ro.len(), rt.len(), rf.orders.len(), rf.trades.len()));
        }
        for (a, b) in ro.iter().zip(rf.orders.iter()) {
            if a != b {
                return Err(format!("after {} operations: order record {:?}, reference {:?}", at, a, b));
            }
        }
        for (k, (a, b)) in rt.iter().zip(rf.trades.iter()).enumerate() {
            if a != b {
                return Err(format!("after {} operations: trade #{} {:?}, reference {:?}", at, k, a, b));
            }
        }
        let v = real.views();
        let exp = crate::ops::recompute_views(&ro, tick, B::LEVELS);
        if v != exp {
            return Err(format!("after {} operations: published views differ from the order list", at));
        }
        if let Some((qb, qa)) = real.queue() {
            if qb != rf.queue(true) || qa != rf.queue(false) {
                return Err(format!("after {} operations: queue order differs from the reference", at));
            }
        }
        Ok(())
    };
    for i in 0..n_ops {
        // every queue insertion at its own clock value (clock discipline)
        t += rng.range(1, 3);
        real.set_time(t);
        rf.set_time(t);
        let r = rng.below(100);
        let n = rf.orders.len();
        if r < 70 || n == 0 {
            let bid = rng.chance(0.5);
            let market = rng.chance(0.08);
            // two-tick band around a slowly drifting centre: about half of the limit orders cross
            let k = center + (i as u64 / 5000) + rng.range(0, 3) - 1;
            let price = if market { None } else { Some((k.max(2) * tick as u64) as u32) };
            let vol = rng.range(1, 40) as u32;
            let trader = rng.below(1000) as u32;
            let a = real.create_place(bid, vol, trader, price).map_err(|e| format!("creation rejected: {}", e))?;
            let b = rf.create(bid, vol, trader, price).map_err(|_| "reference rejected".to_string())?;
            rf.place(b);
            if a != b {
                return Err(format!("operation {}: id {} returned, {} expected", i, a, b));
            }
        } else if r < 85 {
            let id = if rng.chance(0.7) { n - 1 - rng.below((n as u64).min(50)) as usize } else { rng.below(n as u64) as usize };
            real.cancel(id);
            rf.cancel(id);
        } else {
            let id = if rng.chance(0.7) { n - 1 - rng.below((n as u64).min(50)) as usize } else { rng.below(n as u64) as usize };
            let nv = Some(rng.range(1, 60) as u32);
            real.modify(id, None, nv);
            rf.modify(id, None, nv);
        }
        out.ops += 1;
        if i % 4096 == 4095 {
            compare(&real, &rf, i + 1)?;
            out.checkpoints += 1;
            out.max_resting = out.max_resting.max(rf.orders.iter().filter(|o| o.status == ACTIVE).count() as u64);
        }
        // keep the cumulative counter below 2^32
        if rf.traded > (1u64 << 31) {
            real.reset_trade_vol();
            rf.reset_traded();
        }
    }
    compare(&real, &rf, n_ops)?;
    out.checkpoints += 1;
    out.orders = rf.orders.len() as u64;
    out.trades = rf.trades.len() as u64;
    Ok(out)
}

// ---------------------------------------------------------------------------------------------------------------
// Huge batches: one step that carries tens of thousands of instructions (C08: every one applied exactly once at its
// own time-stamp; C14: across assets; C15: submission blocks against position blocks).
// ---------------------------------------------------------------------------------------------------------------
use crate::envlib::SimEnv;
use crate::model::NEW;
use rand_xoshiro::rand_core::SeedableRng;
use rand_xoshiro::Xoroshiro128StarStar;

pub struct HugeOut {
    pub n: usize,
    /// table[submission block][position block], 8 x 8
    pub table: [[u64; 8]; 8],
    /// per asset: instructions of that asset per position block
    pub asset_table: Vec<[u64; 8]>,
}

pub fn huge_step<E: SimEnv>(seed: u64, n: usize) -> Result<HugeOut, (String, String)> {
    let mut rng = Sm::derive(seed, 0x4855);
    let assets = E::ASSETS;
    let ticks: Vec<u32> = (0..assets).map(|_| rng.range(1, 10) as u32).collect();
    let t0 = rng.below(1000);
    let step_size = n as u64 + rng.below(1000);
    let mut env = E::create(t0, &ticks, step_size, true);
    let mut ids: Vec<(usize, usize)> = Vec::with_capacity(n);
    for _ in 0..n {
        let a = rng.below(assets as u64) as usize;
        let bid = rng.chance(0.5);
        let k = if bid { rng.range(10, 40) } else { rng.range(60, 90) };
        let r = env.place(a, bid, rng.range(1, 9) as u32, rng.below(100) as u32, Some((k * ticks[a] as u64) as u32)).map_err(|e| ("harness".to_string(), e))?;
        ids.push(r);
    }
    let mut xr = Xoroshiro128StarStar::seed_from_u64(rng.next());
    crate::util::catch(|| env.do_step(&mut xr)).map_err(|p| ("panic_in_step".to_string(), p))?;
    if env.time() != t0 + step_size {
        return Err(("clock_after_step".into(), format!("start {} step size {} clock {}", t0, step_size, env.time())));
    }
    let orders: Vec<Vec<crate::model::ROrder>> = (0..assets).map(|a| env.env_orders(a)).collect();
    let mut seen = vec![false; n];
    let mut out = HugeOut { n, table: [[0; 8]; 8], asset_table: vec![[0; 8]; assets] };
    for (i, (a, id)) in ids.iter().enumerate() {
        let o = &orders[*a][*id];
        if o.status == NEW {
            return Err(("instruction_not_processed".into(), format!("batch of {} new orders: the {}-th submitted order ({}, {}) is still New after the step", n, i, a, id)));
        }
        if o.arr < t0 || o.arr >= t0 + n as u64 {
            return Err(("time_stamp_outside_batch".into(), format!("batch of {}: order ({}, {}) arrived at {} (start {})", n, a, id, o.arr, t0)));
        }
        let pos = (o.arr - t0) as usize;
        if seen[pos] {
            return Err(("two_instructions_at_one_time_stamp".into(), format!("batch of {}: two orders arrived at {}", n, o.arr)));
        }
        seen[pos] = true;
        out.table[i * 8 / n][pos * 8 / n] += 1;
        out.asset_table[*a][pos * 8 / n] += 1;
    }
    if let Some(p) = env.pending() {
        if !p.is_empty() {
            return Err(("queue_not_empty_after_step".into(), format!("{} instructions left", p.len())));
        }
    }
    Ok(out)
}

// ---------------------------------------------------------------------------------------------------------------
// Mass sweeps: one aggressor that has to execute against thousands of resting orders (C01: price-time order over the
// whole sweep; C05: all resting orders queued at one time-stamp; C02: views after the sweep, nothing left crossed).
// The expectation needs no reference engine: the resting side is sorted once by (price, queuing order).
// ---------------------------------------------------------------------------------------------------------------
pub fn mass_sweep<B: RealBook>(seed: u64, n: usize, tied: bool) -> Result<u64, (String, String)> {
    let mut rng = Sm::derive(seed, 0x5357);
    let tick = rng.range(1, 10) as u32;
    let t0 = rng.below(1000);
    let mut b = B::new(t0, tick, true);
    let ask_side = rng.chance(0.5); // the resting side
    let base = rng.range(100, 50_000);
    let n_prices = rng.range(1, 4);
    let mut t = t0;
    let mut resting: Vec<(u32, usize, u32)> = Vec::with_capacity(n); // (price, id, vol)
    let mut total: u64 = 0;
    for i in 0..n {
        if !tied {
            t += 1;
            b.set_time(t);
        }
        let off = rng.below(n_prices);
        let k = if ask_side { base + off } else { base - off };
        let price = (k * tick as u64) as u32;
        let vol = rng.range(1, 3) as u32;
        let id = b.create_place(!ask_side, vol, (i % 97) as u32, Some(price)).map_err(|e| ("harness".to_string(), e))?;
        resting.push((price, id, vol));
        total += vol as u64;
    }
    t += 1;
    b.set_time(t);
    // expected execution order: best price first, queuing order within a price
    let mut order = resting.clone();
    if ask_side {
        order.sort_by_key(|x| (x.0, x.1));
    } else {
        order.sort_by_key(|x| (std::cmp::Reverse(x.0), x.1));
    }
    let extra = rng.range(1, 50) as u32;
    let worst = if ask_side { ((base + n_prices) * tick as u64) as u32 } else { ((base - n_prices) * tick as u64) as u32 };
    let agg = b.create_place(ask_side, (total as u32) + extra, 5, Some(worst)).map_err(|e| ("harness".to_string(), e))?;
    let trades = b.trades();
    if trades.len() != n {
        return Err(("sweep_incomplete".into(), format!("an aggressor for the whole side of {} resting orders produced {} trades", n, trades.len())));
    }
    for (k, (tr, exp)) in trades.iter().zip(order.iter()).enumerate() {
        if tr.passive != exp.1 || tr.price != exp.0 || tr.vol != exp.2 || tr.active != agg || tr.t != t {
            return Err(("sweep_order".into(), format!("fill #{} of {}: {:?}, expected passive order {} at price {} for {}", k, n, tr, exp.1, exp.0, exp.2)));
        }
    }
    let orders = b.orders();
    if let Some(o) = orders.iter().find(|o| o.id != agg && (o.status != crate::model::FILLED || o.vol != 0 || o.end != t)) {
        return Err(("sweep_record".into(), format!("resting order not filled by the sweep: {:?}", o)));
    }
    let a = &orders[agg];
    if a.status != ACTIVE || a.vol != extra {
        return Err(("sweep_record".into(), format!("aggressor after the sweep: {:?} (remainder {} expected to rest)", a, extra)));
    }
    let v = b.views();
    let exp = crate::ops::recompute_views(&orders, tick, B::LEVELS);
    if v != exp {
        return Err(("views_after_sweep".into(), format!("published views differ from the order list after the sweep: bid_ask {:?} vs {:?}, volumes ({}, {}) vs ({}, {})", v.bid_ask, exp.bid_ask, v.bid_vol, v.ask_vol, exp.bid_vol, exp.ask_vol)));
    }
    if v.bid_vol > 0 && v.ask_vol > 0 && v.bid_ask.0 >= v.bid_ask.1 {
        return Err(("crossed_book".into(), format!("{:?}", v.bid_ask)));
    }
    Ok(n as u64)
}

/// C11 on a level that holds more than 2^16 orders: the recorded row of a step must equal the live book's values
/// (order counts and volumes far beyond 16 bits).
pub fn mass_level_records<E: SimEnv>(seed: u64, n: usize) -> Result<u64, (String, String)> {
    let mut rng = Sm::derive(seed, 0x4d4c);
    let assets = E::ASSETS;
    let ticks: Vec<u32> = (0..assets).map(|_| rng.range(1, 10) as u32).collect();
    let t0 = rng.below(1000);
    let step_size = n as u64 + 1000;
    let mut env = E::create(t0, &ticks, step_size, true);
    let a = rng.below(assets as u64) as usize;
    let c = rng.range(50, 3000);
    for k in 0..n + 200 {
        // n bids on one level (the touch), two hundred asks over three levels
        let bid = k < n;
        let kk = if bid { c - 1 } else { c + 1 + (k as u64 % 3) };
        env.place(a, bid, 1 + (k % 3) as u32, (k % 40) as u32, Some((kk * ticks[a] as u64) as u32)).map_err(|e| ("harness".to_string(), e))?;
    }
    let mut xr = Xoroshiro128StarStar::seed_from_u64(rng.next());
    let mut rows = 0u64;
    for step in 0..2 {
        crate::util::catch(|| env.do_step(&mut xr)).map_err(|p| ("panic_in_step".to_string(), p))?;
        for k in 0..assets {
            let v = env.book(k).views();
            let s = env.series(k);
            let last = |x: &Vec<u32>| x.last().copied();
            let checks: Vec<(&str, Option<u32>, u32)> = vec![
                ("bid_price", last(&s.bid_price), v.bid_ask.0),
                ("ask_price", last(&s.ask_price), v.bid_ask.1),
                ("bid_vol", last(&s.bid_vol), v.bid_vol),
                ("ask_vol", last(&s.ask_vol), v.ask_vol),
                ("touch_bid_vol", last(&s.touch_bid_vol), v.bid_levels[0].0),
                ("touch_ask_vol", last(&s.touch_ask_vol), v.ask_levels[0].0),
                ("touch_bid_orders", last(&s.touch_bid_n), v.bid_levels[0].1),
                ("touch_ask_orders", last(&s.touch_ask_n), v.ask_levels[0].1),
                ("level_0_bid_orders", s.lvl_bid_n.first().and_then(last), v.bid_levels[0].1),
                ("level_0_bid_volume", s.lvl_bid_vol.first().and_then(last), v.bid_levels[0].0),
            ];
            for (name, got, want) in checks {
                if got != Some(want) || s.bid_price.len() != step + 1 {
                    return Err(("recorded_series_differ_from_live_book".into(), format!("asset {} after step {} with {} orders on one level: {} recorded {:?} (series length {}), live book {}", k, step, n, name, got, s.bid_price.len(), want)));
                }
            }
            rows += 1;
        }
    }
    Ok(rows)
}
