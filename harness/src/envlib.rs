//! Client-boundary access to the real simulation environments (`Env<L>`, `MarketEnv<A, L>`)
//! through one trait, the environment-level observation record, instruction batches, the shadow
//! replay on plain real order books and the schedule inference of DESIGN §3.4 / appendix B.

use crate::model::*;
use crate::real::{conv_order, conv_trade, side_of, Obs, RealBook};
use crate::util::{catch, Sm};
use bourse_book::types::Level2Data;
use bourse_book::OrderBook;
use bourse_de::{Env, MarketEnv};
use rand::RngCore;
use serde::{Deserialize, Serialize};

#[derive(Clone, Debug, PartialEq, Serialize, Deserialize)]
pub enum Ins {
    New { asset: usize, bid: bool, vol: u32, trader: u32, price: Option<u32> },
    Cancel { asset: usize, id: usize },
    Modify { asset: usize, id: usize, price: Option<u32>, vol: Option<u32> },
}

impl Ins {
    pub fn asset(&self) -> usize {
        match self {
            Ins::New { asset, .. } | Ins::Cancel { asset, .. } | Ins::Modify { asset, .. } => *asset,
        }
    }
}

/// Recorded series of one asset, as returned by the history getters.
#[derive(Clone, Debug, PartialEq, Default, Serialize)]
pub struct Series {
    pub bid_price: Vec<u32>,
    pub ask_price: Vec<u32>,
    pub bid_vol: Vec<u32>,
    pub ask_vol: Vec<u32>,
    pub touch_bid_vol: Vec<u32>,
    pub touch_ask_vol: Vec<u32>,
    pub touch_bid_n: Vec<u32>,
    pub touch_ask_n: Vec<u32>,
    /// [level][step]
    pub lvl_bid_vol: Vec<Vec<u32>>,
    pub lvl_ask_vol: Vec<Vec<u32>>,
    pub lvl_bid_n: Vec<Vec<u32>>,
    pub lvl_ask_n: Vec<Vec<u32>>,
    pub trade_vols: Vec<u32>,
    /// the same series read through get_prices / get_volumes (must agree with the history record)
    pub hist_bid_price: Vec<u32>,
    pub hist_ask_price: Vec<u32>,
    pub hist_bid_vol: Vec<u32>,
    pub hist_ask_vol: Vec<u32>,
}

#[derive(Clone, Debug, PartialEq, Serialize)]
pub struct L2 {
    pub head: [u32; 4],
    pub bid: Vec<(u32, u32)>,
    pub ask: Vec<(u32, u32)>,
}

pub fn l2_of<const L: usize>(d: &Level2Data<L>) -> L2 {
    L2 { head: [d.bid_price, d.ask_price, d.bid_vol, d.ask_vol], bid: d.bid_price_levels.to_vec(), ask: d.ask_price_levels.to_vec() }
}

/// Everything observable about one asset of an environment.
#[derive(Clone, Debug, PartialEq, Serialize)]
pub struct AssetObs {
    pub book: Obs,
    /// orders / trades as returned by the environment's own getters
    pub env_orders: Vec<ROrder>,
    pub env_trades: Vec<RTrade>,
    pub series: Series,
    pub cached_l2: L2,
}

#[derive(Clone, Debug, PartialEq, Serialize)]
pub struct EnvObs {
    pub assets: Vec<AssetObs>,
    pub pending: Option<usize>,
}

pub trait SimEnv: Sized {
    const ASSETS: usize;
    const LEVELS: usize;
    type Book: RealBook;
    fn create(t0: u64, ticks: &[u32], step_size: u64, trading: bool) -> Self;
    fn do_step<R: RngCore>(&mut self, rng: &mut R);
    fn set_trading(&mut self, on: bool);
    fn place(&mut self, asset: usize, bid: bool, vol: u32, trader: u32, price: Option<u32>) -> Result<(usize, usize), String>;
    fn cancel(&mut self, asset: usize, id: usize);
    fn modify(&mut self, asset: usize, id: usize, p: Option<u32>, v: Option<u32>);
    fn book(&self, asset: usize) -> &Self::Book;
    fn env_orders(&self, asset: usize) -> Vec<ROrder>;
    fn env_trades(&self, asset: usize) -> Vec<RTrade>;
    fn env_order(&self, asset: usize, id: usize) -> ROrder;
    fn env_order_status(&self, asset: usize, id: usize) -> u8;
    fn series(&self, asset: usize) -> Series;
    fn cached_l2(&self, asset: usize) -> L2;
    fn pending(&self) -> Option<Vec<Ins>>;
    fn name() -> String;

    fn submit(&mut self, ins: &Ins) -> Option<Result<(usize, usize), String>> {
        match ins {
            Ins::New { asset, bid, vol, trader, price } => Some(self.place(*asset, *bid, *vol, *trader, *price)),
            Ins::Cancel { asset, id } => {
                self.cancel(*asset, *id);
                None
            }
            Ins::Modify { asset, id, price, vol } => {
                self.modify(*asset, *id, *price, *vol);
                None
            }
        }
    }

    fn time(&self) -> u64 {
        self.book(0).time()
    }

    fn asset_obs(&self, a: usize) -> AssetObs {
        AssetObs { book: self.book(a).obs(), env_orders: self.env_orders(a), env_trades: self.env_trades(a), series: self.series(a), cached_l2: self.cached_l2(a) }
    }

    fn obs(&self) -> EnvObs {
        EnvObs { assets: (0..Self::ASSETS).map(|a| self.asset_obs(a)).collect(), pending: self.pending().map(|p| p.len()) }
    }
}

/// element-wise widening to u32 (the tree under test may store a series in a narrower or wider integer type)
fn wd<T: Copy + TryInto<u32>>(v: &[T]) -> Vec<u32> {
    v.iter().map(|x| (*x).try_into().unwrap_or(u32::MAX)).collect()
}

#[allow(clippy::too_many_arguments)]
fn series_from<const L: usize, A, B, C, D, F, G>(
    rec: &bourse_de::Level2DataRecords<L>,
    trade_vols: &[A],
    prices: &(Vec<B>, Vec<B>),
    vols: &(Vec<C>, Vec<C>),
    tv: (&Vec<D>, &Vec<D>),
    tn: (&Vec<F>, &Vec<F>),
    _marker: std::marker::PhantomData<G>,
) -> Series
where
    A: Copy + TryInto<u32>,
    B: Copy + TryInto<u32>,
    C: Copy + TryInto<u32>,
    D: Copy + TryInto<u32>,
    F: Copy + TryInto<u32>,
{
    Series {
        bid_price: wd(&rec.prices.0),
        ask_price: wd(&rec.prices.1),
        bid_vol: wd(&rec.volumes.0),
        ask_vol: wd(&rec.volumes.1),
        touch_bid_vol: wd(tv.0),
        touch_ask_vol: wd(tv.1),
        touch_bid_n: wd(tn.0),
        touch_ask_n: wd(tn.1),
        lvl_bid_vol: rec.volumes_at_levels.0.iter().map(|v| wd(v)).collect(),
        lvl_ask_vol: rec.volumes_at_levels.1.iter().map(|v| wd(v)).collect(),
        lvl_bid_n: rec.orders_at_levels.0.iter().map(|v| wd(v)).collect(),
        lvl_ask_n: rec.orders_at_levels.1.iter().map(|v| wd(v)).collect(),
        trade_vols: wd(trade_vols),
        hist_bid_price: wd(&prices.0),
        hist_ask_price: wd(&prices.1),
        hist_bid_vol: wd(&vols.0),
        hist_ask_vol: wd(&vols.1),
    }
}

impl<const L: usize> SimEnv for Env<L> {
    const ASSETS: usize = 1;
    const LEVELS: usize = L;
    type Book = OrderBook<L>;
    fn create(t0: u64, ticks: &[u32], step_size: u64, trading: bool) -> Self {
        Env::<L>::new(t0, ticks[0], step_size, trading)
    }
    fn do_step<R: RngCore>(&mut self, rng: &mut R) {
        let _ = self.step(rng);
    }
    fn set_trading(&mut self, on: bool) {
        if on {
            let _ = self.enable_trading();
        } else {
            let _ = self.disable_trading();
        }
    }
    fn place(&mut self, _asset: usize, bid: bool, vol: u32, trader: u32, price: Option<u32>) -> Result<(usize, usize), String> {
        self.place_order(side_of(bid), vol, trader, price).map(|id| (0, id)).map_err(|e| e.to_string())
    }
    fn cancel(&mut self, _asset: usize, id: usize) {
        let _ = self.cancel_order(id);
    }
    fn modify(&mut self, _asset: usize, id: usize, p: Option<u32>, v: Option<u32>) {
        let _ = self.modify_order(id, p, v);
    }
    fn book(&self, _asset: usize) -> &OrderBook<L> {
        self.get_orderbook()
    }
    fn env_orders(&self, _asset: usize) -> Vec<ROrder> {
        self.get_orders().into_iter().map(conv_order).collect()
    }
    fn env_trades(&self, _asset: usize) -> Vec<RTrade> {
        self.get_trades().iter().map(conv_trade).collect()
    }
    fn env_order(&self, _asset: usize, id: usize) -> ROrder {
        conv_order(self.order(id))
    }
    fn env_order_status(&self, _asset: usize, id: usize) -> u8 {
        crate::real::status_u8(self.order_status(id))
    }
    fn series(&self, _asset: usize) -> Series {
        if L == 0 {
            // no level 0: the touch series do not exist (the getters index level 0)
            let e: Vec<u32> = Vec::new();
            return series_from(self.get_level_2_data_history(), self.get_trade_vols(), self.get_prices(), self.get_volumes(), (&e, &e), (&e, &e), std::marker::PhantomData::<()>);
        }
        series_from(self.get_level_2_data_history(), self.get_trade_vols(), self.get_prices(), self.get_volumes(), self.get_touch_volumes(), self.get_touch_order_counts(), std::marker::PhantomData::<()>)
    }
    fn cached_l2(&self, _asset: usize) -> L2 {
        l2_of(self.level_2_data())
    }
    #[cfg(feature = "hooks")]
    fn pending(&self) -> Option<Vec<Ins>> {
        use bourse_book::types::Event;
        Some(
            self.verif_pending()
                .iter()
                .map(|e| match e {
                    Event::New { order_id } => {
                        let o = conv_order(self.order(*order_id));
                        Ins::New { asset: 0, bid: o.bid, vol: o.vol, trader: o.trader, price: Some(o.price) }
                    }
                    Event::Cancellation { order_id } => Ins::Cancel { asset: 0, id: *order_id },
                    Event::Modify { order_id, new_price, new_vol } => Ins::Modify { asset: 0, id: *order_id, price: *new_price, vol: *new_vol },
                })
                .collect(),
        )
    }
    #[cfg(not(feature = "hooks"))]
    fn pending(&self) -> Option<Vec<Ins>> {
        None
    }
    fn name() -> String {
        format!("Env<{}>", L)
    }
}

impl<const A: usize, const L: usize> SimEnv for MarketEnv<A, L> {
    const ASSETS: usize = A;
    const LEVELS: usize = L;
    type Book = OrderBook<L>;
    fn create(t0: u64, ticks: &[u32], step_size: u64, trading: bool) -> Self {
        let t: [u32; A] = core::array::from_fn(|i| ticks[i]);
        MarketEnv::<A, L>::new(t0, t, step_size, trading)
    }
    fn do_step<R: RngCore>(&mut self, rng: &mut R) {
        let _ = self.step(rng);
    }
    fn set_trading(&mut self, on: bool) {
        if on {
            let _ = self.enable_trading();
        } else {
            let _ = self.disable_trading();
        }
    }
    fn place(&mut self, asset: usize, bid: bool, vol: u32, trader: u32, price: Option<u32>) -> Result<(usize, usize), String> {
        self.place_order(asset, side_of(bid), vol, trader, price).map_err(|e| e.to_string())
    }
    fn cancel(&mut self, asset: usize, id: usize) {
        let _ = self.cancel_order((asset, id));
    }
    fn modify(&mut self, asset: usize, id: usize, p: Option<u32>, v: Option<u32>) {
        let _ = self.modify_order((asset, id), p, v);
    }
    fn book(&self, asset: usize) -> &OrderBook<L> {
        self.get_market().get_order_book(asset)
    }
    fn env_orders(&self, asset: usize) -> Vec<ROrder> {
        self.get_orders(asset).into_iter().map(conv_order).collect()
    }
    fn env_trades(&self, asset: usize) -> Vec<RTrade> {
        self.get_trades(asset).iter().map(conv_trade).collect()
    }
    fn env_order(&self, asset: usize, id: usize) -> ROrder {
        conv_order(self.order((asset, id)))
    }
    fn env_order_status(&self, asset: usize, id: usize) -> u8 {
        crate::real::status_u8(self.order_status((asset, id)))
    }
    fn series(&self, asset: usize) -> Series {
        if L == 0 {
            let e: Vec<u32> = Vec::new();
            return series_from(self.get_level_2_data_history(asset), self.get_trade_vols(asset), self.get_prices(asset), self.get_volumes(asset), (&e, &e), (&e, &e), std::marker::PhantomData::<()>);
        }
        series_from(
            self.get_level_2_data_history(asset),
            self.get_trade_vols(asset),
            self.get_prices(asset),
            self.get_volumes(asset),
            self.get_touch_volumes(asset),
            self.get_touch_order_counts(asset),
            std::marker::PhantomData::<()>,
        )
    }
    fn cached_l2(&self, asset: usize) -> L2 {
        l2_of(&self.level_2_data()[asset])
    }
    #[cfg(feature = "hooks")]
    fn pending(&self) -> Option<Vec<Ins>> {
        use bourse_book::types::Event;
        Some(
            self.verif_pending()
                .iter()
                .map(|e| match e {
                    Event::New { order_id } => {
                        let o = conv_order(self.order(*order_id));
                        Ins::New { asset: order_id.0, bid: o.bid, vol: o.vol, trader: o.trader, price: Some(o.price) }
                    }
                    Event::Cancellation { order_id } => Ins::Cancel { asset: order_id.0, id: order_id.1 },
                    Event::Modify { order_id, new_price, new_vol } => Ins::Modify { asset: order_id.0, id: order_id.1, price: *new_price, vol: *new_vol },
                })
                .collect(),
        )
    }
    #[cfg(not(feature = "hooks"))]
    fn pending(&self) -> Option<Vec<Ins>> {
        None
    }
    fn name() -> String {
        format!("MarketEnv<{},{}>", A, L)
    }
}

/// Dispatch a generic function over the monomorphised environment types by index.
#[macro_export]
macro_rules! with_env {
    ($idx:expr, $f:ident ( $($arg:expr),* )) => {
        match $idx {
            0 => $f::<bourse_de::Env<10>>($($arg),*),
            1 => $f::<bourse_de::Env<1>>($($arg),*),
            2 => $f::<bourse_de::Env<3>>($($arg),*),
            3 => $f::<bourse_de::Env<24>>($($arg),*),
            4 => $f::<bourse_de::MarketEnv<1, 10>>($($arg),*),
            5 => $f::<bourse_de::MarketEnv<2, 3>>($($arg),*),
            6 => $f::<bourse_de::MarketEnv<3, 5>>($($arg),*),
            7 => $f::<bourse_de::MarketEnv<4, 2>>($($arg),*),
            8 => $f::<bourse_de::MarketEnv<2, 10>>($($arg),*),
            9 => $f::<bourse_de::MarketEnv<4, 10>>($($arg),*),
            10 => $f::<bourse_de::MarketEnv<12, 2>>($($arg),*),
            11 => $f::<bourse_de::MarketEnv<66, 1>>($($arg),*),
            // level-less environments sit behind the harness feature `zerolevel` (on by default): a tree that refuses
            // LEVELS = 0 at compile time is then still checked with every other configuration
            #[cfg(feature = "zerolevel")]
            12 => $f::<bourse_de::Env<0>>($($arg),*),
            #[cfg(feature = "zerolevel")]
            _ => $f::<bourse_de::MarketEnv<2, 0>>($($arg),*),
            #[cfg(not(feature = "zerolevel"))]
            12 => $f::<bourse_de::Env<1>>($($arg),*),
            #[cfg(not(feature = "zerolevel"))]
            _ => $f::<bourse_de::MarketEnv<2, 3>>($($arg),*),
        }
    };
}
pub const N_ENV_TYPES: usize = 14;
pub const ENV_ASSETS: [usize; N_ENV_TYPES] = [1, 1, 1, 1, 1, 2, 3, 4, 2, 4, 12, 66, 1, 2];
/// environments without level tracking (LEVELS = 0: no per-level series, the touch-volume getters are not available)
pub const ZERO_LEVEL_ENV_TYPES: [usize; 2] = [12, 13];
/// wide markets (more assets than levels, more than 10 / 64 assets): used for a small share of the multi-asset sessions
pub const WIDE_ENV_TYPES: [usize; 2] = [10, 11];
pub const ENV_IS_MULTI: [bool; N_ENV_TYPES] = [false, false, false, false, true, true, true, true, true, true, true, true, false, true];

// ------------------------------------------------------------------------------------------------
// Shadow: plain real order books driven by the harness next to an environment
// ------------------------------------------------------------------------------------------------

pub struct Shadow<B: RealBook> {
    pub books: Vec<B>,
}

impl<B: RealBook> Shadow<B> {
    pub fn new(t0: u64, ticks: &[u32], trading: bool) -> Self {
        Shadow { books: ticks.iter().map(|t| B::new(t0, *t, trading)).collect() }
    }
    pub fn set_time(&mut self, t: u64) {
        for b in self.books.iter_mut() {
            b.set_time(t);
        }
    }
    pub fn set_trading(&mut self, on: bool) {
        for b in self.books.iter_mut() {
            b.set_trading(on);
        }
    }
    /// Replay a batch in the given processing order: the i-th processed instruction at start+i.
    /// `new_ids[k]` is the (already created) order id of instruction k if it is a New.
    pub fn replay(&mut self, batch: &[Ins], new_ids: &[Option<usize>], order: &[usize], start: u64, step_size: u64) {
        for b in self.books.iter_mut() {
            b.reset_trade_vol();
        }
        for (i, k) in order.iter().enumerate() {
            self.set_time(start + i as u64);
            match &batch[*k] {
                Ins::New { asset, .. } => self.books[*asset].ev_new(new_ids[*k].unwrap()),
                Ins::Cancel { asset, id } => self.books[*asset].ev_cancel(*id),
                Ins::Modify { asset, id, price, vol } => self.books[*asset].ev_modify(*id, *price, *vol),
            }
        }
        self.set_time(start + step_size);
    }
    pub fn fork(&self) -> Result<Shadow<B>, String> {
        let mut books = Vec::new();
        for b in &self.books {
            books.push(B::from_json(&b.to_json(false))?);
        }
        Ok(Shadow { books })
    }
}

/// Reference-engine twin of the shadow: cheap to clone, used only by the fallback schedule search.
#[derive(Clone)]
pub struct RefShadow {
    pub books: Vec<RefBook>,
}

impl RefShadow {
    pub fn new(t0: u64, ticks: &[u32], trading: bool) -> Self {
        RefShadow { books: ticks.iter().map(|t| RefBook::new(t0, *t, trading)).collect() }
    }
    pub fn set_time(&mut self, t: u64) {
        for b in self.books.iter_mut() {
            b.set_time(t);
        }
    }
    pub fn set_trading(&mut self, on: bool) {
        for b in self.books.iter_mut() {
            b.set_trading(on);
        }
    }
    pub fn apply(&mut self, ins: &Ins, new_id: Option<usize>) {
        match ins {
            Ins::New { asset, .. } => self.books[*asset].place(new_id.unwrap()),
            Ins::Cancel { asset, id } => self.books[*asset].cancel(*id),
            Ins::Modify { asset, id, price, vol } => self.books[*asset].modify(*id, *price, *vol),
        }
    }
    pub fn replay(&mut self, batch: &[Ins], new_ids: &[Option<usize>], order: &[usize], start: u64, step_size: u64) {
        for b in self.books.iter_mut() {
            b.reset_traded();
        }
        for (i, k) in order.iter().enumerate() {
            self.set_time(start + i as u64);
            self.apply(&batch[*k], new_ids[*k]);
        }
        self.set_time(start + step_size);
    }
}

/// The permutation rand's `SliceRandom::shuffle` produces for a slice of length n from this
/// generator state (the shuffle is content-independent) — used only as a *hint*.
pub fn rand_shuffle_perm<R: RngCore + Clone>(rng: &R, n: usize) -> Vec<usize> {
    use rand::seq::SliceRandom;
    let mut r = rng.clone();
    let mut v: Vec<usize> = (0..n).collect();
    v.shuffle(&mut r);
    v
}

#[derive(Debug)]
pub enum Infer {
    /// a schedule consistent with everything observed (processing order: position -> batch index)
    Consistent { order: Vec<usize>, by_hint: bool, candidates_tried: u64 },
    /// no permutation of the batch reproduces the observed environment
    Violation(String),
    Inconclusive(String),
}

fn shadow_matches<E: SimEnv>(env: &E, sh: &Shadow<E::Book>) -> Result<(), String> {
    for a in 0..E::ASSETS {
        let eo = env.book(a).obs();
        let so = sh.books[a].obs();
        if eo != so {
            return Err(format!("asset {}: {}", a, crate::ops::obs_diff(&so, &eo)));
        }
    }
    Ok(())
}

/// Decide whether some permutation of `batch`, replayed on the shadow at times start+0..start+n-1,
/// reproduces the environment after its step; on success the live shadow is advanced with it.
#[allow(clippy::too_many_arguments)]
pub fn infer_and_advance<E: SimEnv>(
    env: &E,
    shadow: &mut Shadow<E::Book>,
    rshadow: &mut RefShadow,
    batch: &[Ins],
    new_ids: &[Option<usize>],
    start: u64,
    step_size: u64,
    hint: &[usize],
    node_budget: u64,
) -> Infer {
    let n = batch.len();
    // snapshot texts of the shadow before the step: only used if the hinted order fails
    let pre_json: Vec<String> = shadow.books.iter().map(|b| b.to_json(false)).collect();
    let restore = |pre: &[String]| -> Result<Shadow<E::Book>, String> {
        let mut books = Vec::new();
        for j in pre {
            books.push(<E::Book as RealBook>::from_json(j)?);
        }
        Ok(Shadow { books })
    };
    // 1. the hint: exactly what rand's shuffle would do from the generator state before the step,
    //    replayed on the live shadow (which has never been serialised)
    if hint.len() == n {
        let ok = catch(|| {
            shadow.replay(batch, new_ids, hint, start, step_size);
            shadow_matches(env, shadow)
        });
        if let Ok(Ok(())) = ok {
            rshadow.replay(batch, new_ids, hint, start, step_size);
            return Infer::Consistent { order: hint.to_vec(), by_hint: true, candidates_tried: 1 };
        }
        match restore(&pre_json) {
            Ok(s) => *shadow = s,
            Err(e) => return Infer::Inconclusive(format!("cannot restore shadow: {}", e)),
        }
    }
    // 2. search: New instructions have visible positions (arrival time - start)
    let mut slot_of: Vec<Option<usize>> = vec![None; n];
    let mut used = vec![false; n];
    for (k, ins) in batch.iter().enumerate() {
        if let Ins::New { asset, .. } = ins {
            let id = new_ids[k].unwrap();
            let o = env.book(*asset).order(id);
            if o.status == NEW {
                return Infer::Violation(format!("new-order instruction for order ({}, {}) was not applied by the step (status still New)", asset, id));
            }
            if o.arr < start || o.arr >= start + n as u64 {
                return Infer::Violation(format!("order ({}, {}) arrived at {} which is not start+i for any i in 0..{} (start {})", asset, id, o.arr, n, start));
            }
            let s = (o.arr - start) as usize;
            if used[s] {
                return Infer::Violation(format!("two new-order instructions were processed at the same time-stamp {}", o.arr));
            }
            used[s] = true;
            slot_of[k] = Some(s);
        }
    }
    // effective cancellations are visible too: a limit order only ever turns Cancelled through a cancel instruction,
    // so an order that was not Cancelled before the step and is now was cancelled at the slot of one of the cancel
    // instructions aimed at it (identical instructions are interchangeable: the first one still free takes the slot)
    {
        let mut seen: Vec<(usize, usize)> = Vec::new();
        for ins in batch.iter() {
            if let Ins::Cancel { asset, id } = ins {
                if seen.contains(&(*asset, *id)) {
                    continue;
                }
                seen.push((*asset, *id));
                let rb = &rshadow.books[*asset];
                if *id >= rb.orders.len() || rb.is_market[*id] || rb.orders[*id].status == CANCELLED {
                    continue;
                }
                let o = env.book(*asset).order(*id);
                if o.status != CANCELLED {
                    continue;
                }
                if o.end < start || o.end >= start + n as u64 {
                    return Infer::Violation(format!("order ({}, {}) was cancelled at {} which is not start+i for any i in 0..{} (start {})", asset, id, o.end, n, start));
                }
                let sl = (o.end - start) as usize;
                if used[sl] {
                    return Infer::Violation(format!("a cancellation and another instruction were both processed at time-stamp {}", o.end));
                }
                if let Some(k) = (0..n).find(|k| slot_of[*k].is_none() && batch[*k] == *ins) {
                    used[sl] = true;
                    slot_of[k] = Some(sl);
                }
            }
        }
    }
    let unknown: Vec<usize> = (0..n).filter(|k| slot_of[*k].is_none()).collect();
    // what the environment shows after the step (targets of the search)
    let assets = E::ASSETS;
    let env_orders: Vec<Vec<ROrder>> = (0..assets).map(|a| env.book(a).orders()).collect();
    let env_trades: Vec<Vec<RTrade>> = (0..assets).map(|a| env.book(a).trades()).collect();
    let pre_trades: Vec<usize> = rshadow.books.iter().map(|b| b.trades.len()).collect();
    let mut forced: Vec<Option<usize>> = vec![None; n];
    for k in 0..n {
        if let Some(sl) = slot_of[k] {
            forced[sl] = Some(k);
        }
    }
    struct Dfs<'a> {
        batch: &'a [Ins],
        new_ids: &'a [Option<usize>],
        forced: &'a [Option<usize>],
        env_orders: &'a [Vec<ROrder>],
        env_trades: &'a [Vec<RTrade>],
        env_queues: &'a [Option<(Vec<usize>, Vec<usize>)>],
        pre_trades: &'a [usize],
        /// real-book verification of a complete candidate order (fork of the shadow + replay + compare)
        verify: &'a mut dyn FnMut(&[usize]) -> bool,
        start: u64,
        step_size: u64,
        nodes: u64,
        budget: u64,
    }
    impl<'a> Dfs<'a> {
        /// Some(order) on success, None if this subtree is exhausted; Err(()) when the budget ran out
        fn go(&mut self, rs: &RefShadow, slot: usize, remaining: &mut Vec<usize>, order: &mut Vec<usize>) -> Result<bool, ()> {
            let n = self.batch.len();
            if slot == n {
                let mut fin = rs.clone();
                fin.set_time(self.start + self.step_size);
                for a in 0..fin.books.len() {
                    let rb = &fin.books[a];
                    if rb.trades != self.env_trades[a] || rb.orders.len() != self.env_orders[a].len() {
                        return Ok(false);
                    }
                    for (e, o) in rb.orders.iter().zip(self.env_orders[a].iter()) {
                        let mut e2 = *e;
                        if e.status == NEW {
                            e2.arr = o.arr;
                        }
                        if e2 != *o {
                            return Ok(false);
                        }
                    }
                    // the queue order (hook H2) distinguishes schedules that differ only in the order
                    // of re-queuing modifications
                    if let Some((qb, qa)) = &self.env_queues[a] {
                        if *qb != rb.queue(true) || *qa != rb.queue(false) {
                            return Ok(false);
                        }
                    }
                }
                // the verdict is taken on the real plain order book
                return Ok((self.verify)(order));
            }
            let cands: Vec<usize> = match self.forced[slot] {
                Some(k) => vec![k],
                None => {
                    // identical instructions are interchangeable: try each distinct one once
                    let mut c: Vec<usize> = Vec::new();
                    for k in remaining.iter() {
                        if !c.iter().any(|j| self.batch[*j] == self.batch[*k]) {
                            c.push(*k);
                        }
                    }
                    c
                }
            };
            let branching = self.forced[slot].is_none();
            for k in cands {
                // only genuine choices count against the budget (forced slots are a straight line)
                if branching {
                    self.nodes += 1;
                }
                if self.nodes > self.budget {
                    return Err(());
                }
                let mut next = rs.clone();
                next.set_time(self.start + slot as u64);
                next.apply(&self.batch[k], self.new_ids[k]);
                // prune: the trade log is append-only, so what has been produced so far must be a
                // prefix of what the environment shows; an order that became terminal now must show
                // exactly this end time in the environment
                let a = self.batch[k].asset();
                let rb = &next.books[a];
                let produced = &rb.trades[self.pre_trades[a]..];
                let seen = &self.env_trades[a][self.pre_trades[a].min(self.env_trades[a].len())..];
                if produced.len() > seen.len() || produced != &seen[..produced.len()] {
                    continue;
                }
                let subject = match &self.batch[k] {
                    Ins::New { .. } => self.new_ids[k].unwrap(),
                    Ins::Cancel { id, .. } | Ins::Modify { id, .. } => *id,
                };
                if subject < rb.orders.len() && subject < self.env_orders[a].len() {
                    let (r, e) = (&rb.orders[subject], &self.env_orders[a][subject]);
                    if r.status >= FILLED && (e.status != r.status || e.end != r.end) {
                        continue;
                    }
                }
                let was_forced = self.forced[slot].is_some();
                let pos = if was_forced { None } else { remaining.iter().position(|x| *x == k) };
                if let Some(p) = pos {
                    remaining.remove(p);
                }
                order.push(k);
                let r = self.go(&next, slot + 1, remaining, order)?;
                if r {
                    return Ok(true);
                }
                order.pop();
                if let Some(p) = pos {
                    remaining.insert(p, k);
                }
            }
            Ok(false)
        }
    }
    let mut base = rshadow.clone();
    for b in base.books.iter_mut() {
        b.reset_traded();
    }
    let env_queues: Vec<Option<(Vec<usize>, Vec<usize>)>> = (0..assets).map(|a| env.book(a).queue()).collect();
    let mut ref_only_matches = 0u64;
    let mut verify = |order: &[usize]| -> bool {
        match restore(&pre_json) {
            Ok(mut f) => {
                let ok = catch(|| {
                    f.replay(batch, new_ids, order, start, step_size);
                    shadow_matches(env, &f)
                });
                if let Ok(Ok(())) = ok {
                    true
                } else {
                    ref_only_matches += 1;
                    false
                }
            }
            Err(_) => false,
        }
    };
    let mut dfs = Dfs { batch, new_ids, forced: &forced, env_orders: &env_orders, env_trades: &env_trades, env_queues: &env_queues, pre_trades: &pre_trades, verify: &mut verify, start, step_size, nodes: 0, budget: node_budget };
    let mut remaining = unknown.clone();
    let mut order: Vec<usize> = Vec::with_capacity(n);
    let found = match dfs.go(&base, 0, &mut remaining, &mut order) {
        Ok(true) => Some(order),
        Ok(false) => None,
        Err(()) => return Infer::Inconclusive(format!("schedule search budget exhausted after {} nodes ({} instructions without a visible time-stamp)", dfs.nodes, unknown.len())),
    };
    let tried = dfs.nodes;
    match found {
        Some(order) => {
            // the verdict is taken on the real plain order book
            let ok = catch(|| {
                shadow.replay(batch, new_ids, &order, start, step_size);
                shadow_matches(env, shadow)
            });
            match ok {
                Ok(Ok(())) => {
                    rshadow.replay(batch, new_ids, &order, start, step_size);
                    Infer::Consistent { order, by_hint: false, candidates_tried: tried }
                }
                Ok(Err(e)) => Infer::Inconclusive(format!("a schedule reproduces the environment on the reference engine but not on the real plain book (matching semantics are C01's business): {}", e)),
                Err(p) => Infer::Inconclusive(format!("replay of the found schedule panicked: {}", p)),
            }
        }
        None => {
            let detail = if hint.len() == n {
                match restore(&pre_json) {
                    Ok(mut f) => match catch(|| {
                        f.replay(batch, new_ids, hint, start, step_size);
                        shadow_matches(env, &f)
                    }) {
                        Ok(Err(e)) => e,
                        Ok(Ok(())) => String::new(),
                        Err(p) => format!("replay panicked: {}", p),
                    },
                    Err(e) => e,
                }
            } else {
                String::new()
            };
            Infer::Violation(format!("no processing order of the {} submitted instructions reproduces the environment's book ({} search nodes); difference for the order rand's shuffle would give: {}", n, tried, detail))
        }
    }
}

pub fn next_permutation(p: &mut [usize]) -> bool {
    if p.len() < 2 {
        return false;
    }
    let mut i = p.len() - 1;
    while i > 0 && p[i - 1] >= p[i] {
        i -= 1;
    }
    if i == 0 {
        return false;
    }
    let mut j = p.len() - 1;
    while p[j] <= p[i - 1] {
        j -= 1;
    }
    p.swap(i - 1, j);
    p[i..].reverse();
    true
}

// ------------------------------------------------------------------------------------------------
// G-env: batches of interacting instructions
// ------------------------------------------------------------------------------------------------

pub struct EnvGenCfg {
    pub ticks: Vec<u32>,
    pub center_k: Vec<u64>,
    pub half: u64,
    pub max_invisible: usize,
    pub p_market: f64,
    pub w_new: u32,
    pub w_cancel: u32,
    pub w_modify: u32,
    /// large-volume session (3%): resting orders of 2^28..2^30 units per order, per-side resting volume kept below 2^32,
    /// and takers that are sized to trade completely against the opposite touch - so that an aggressor plus the volume
    /// resting on its own side may exceed 2^32 and the traded volume accumulated over the session passes 2^32
    pub large: bool,
}

impl EnvGenCfg {
    pub fn random(rng: &mut Sm, assets: usize, levels: usize) -> Self {
        let mut ticks: Vec<u32> = (0..assets).map(|_| rng.range(1, 10) as u32).collect();
        let mut center_k: Vec<u64> = (0..assets).map(|_| rng.range(20, 5000)).collect();
        let large = rng.chance(0.03);
        // coarse grids (2% of the sessions, one or all assets): ticks so large that the price range holds only about as
        // many grid prices as levels are published ((LEVELS-1)*tick still fits into the price type)
        if !large && rng.chance(0.02) {
            let one = rng.below(assets as u64) as usize;
            let all = rng.chance(0.5);
            for a in 0..assets {
                if all || a == one {
                    let l = levels.max(2) as u64;
                    let hi = ((u32::MAX as u64) / (l - 1)).min((u32::MAX as u64 - 1) / 2);
                    let lo = ((u32::MAX as u64 + 1) / (l + 3)).max(1 << 20).min(hi);
                    let pow2 = 1u64 << (63 - hi.leading_zeros() as u64);
                    ticks[a] = if rng.chance(0.33) && pow2 >= lo { pow2 as u32 } else { rng.range(lo, hi) as u32 };
                    let max_k = (u32::MAX as u64 - 1) / ticks[a] as u64;
                    center_k[a] = rng.range(1, max_k.max(1));
                }
            }
        }
        EnvGenCfg { ticks, center_k, half: rng.range(1, 6), max_invisible: 7, p_market: 0.12, w_new: 55, w_cancel: 20, w_modify: 25, large }
    }

    /// Batch of a large-volume session: per asset either a few non-crossing makers (own-side sums stay below 2^32) or
    /// exactly one taker priced at the opposite touch with at most the touch volume, and nothing else for that asset.
    fn large_batch<E: SimEnv>(&self, rng: &mut Sm, env: &E) -> Vec<Ins> {
        let mut out = Vec::new();
        for asset in 0..E::ASSETS {
            let v = env.book(asset).views();
            let tick = self.ticks[asset] as u64;
            let c = self.center_k[asset].max(8);
            let taker_side = if rng.chance(0.5) { Some(rng.chance(0.5)) } else { None };
            if let Some(bid) = taker_side {
                let (touch_price, touch_vol) = if bid { (v.bid_ask.1, v.ask_best.0) } else { (v.bid_ask.0, v.bid_best.0) };
                if touch_vol > 0 {
                    let vol = (rng.range(1 << 29, 3 << 30) as u32).min(touch_vol).max(1);
                    out.push(Ins::New { asset, bid, vol, trader: rng.below(30) as u32, price: Some(touch_price) });
                    continue;
                }
            }
            let (mut bv, mut av) = (v.bid_vol as u64, v.ask_vol as u64);
            for _ in 0..rng.range(1, 3) {
                let bid = rng.chance(0.5);
                let vol = rng.range(1 << 28, 1 << 30);
                let side = if bid { &mut bv } else { &mut av };
                if *side + vol >= (u32::MAX as u64) - 1 {
                    continue;
                }
                *side += vol;
                let k = if bid { c - rng.range(1, 3) } else { c + rng.range(1, 3) };
                out.push(Ins::New { asset, bid, vol: vol as u32, trader: rng.below(30) as u32, price: Some((k * tick) as u32) });
            }
        }
        out
    }

    pub fn price(&self, rng: &mut Sm, asset: usize) -> u32 {
        let c = self.center_k[asset];
        let max_k = (u32::MAX as u64 - 1) / self.ticks[asset] as u64; // prices stay strictly below 2^32-1 (coarse grids)
        let k = rng.range(c.saturating_sub(self.half).max(1), (c + self.half).min(max_k));
        (k * self.ticks[asset] as u64) as u32
    }

    /// Generate a batch of `n` instructions against the current state of the environment. New
    /// instructions refer to orders that will get the next ids, so cancel/modify can target orders
    /// created in the same batch (`next_ids` = current number of orders per asset).
    pub fn batch<E: SimEnv>(&self, rng: &mut Sm, env: &E, n: usize) -> Vec<Ins> {
        if self.large {
            // never more instructions than the caller allows (batch sizes stay within the step size)
            let mut b = self.large_batch(rng, env);
            b.truncate(n);
            return b;
        }
        let assets = E::ASSETS;
        let mut next_ids: Vec<usize> = (0..assets).map(|a| env.env_orders(a).len()).collect();
        let actives: Vec<Vec<usize>> = (0..assets).map(|a| env.env_orders(a).iter().filter(|o| o.status == ACTIVE).map(|o| o.id).collect()).collect();
        let mut out = Vec::with_capacity(n);
        let mut invisible = 0usize;
        let mut created_here: Vec<Vec<usize>> = vec![Vec::new(); assets];
        for _ in 0..n {
            let asset = rng.below(assets as u64) as usize;
            let total = self.w_new + self.w_cancel + self.w_modify;
            let mut w = rng.below(total as u64) as u32;
            let can_target = next_ids[asset] > 0;
            if w >= self.w_new && (!can_target || invisible >= self.max_invisible) {
                w = 0;
            }
            if w < self.w_new {
                let market = rng.chance(self.p_market);
                let bid = rng.chance(0.5);
                let vol = rng.range(1, 60) as u32;
                let price = if market { None } else { Some(self.price(rng, asset)) };
                out.push(Ins::New { asset, bid, vol, trader: rng.below(30) as u32, price });
                created_here[asset].push(next_ids[asset]);
                next_ids[asset] += 1;
            } else {
                // target: an active order (60%), an order created in this same batch (25%), any id (15%)
                let r = rng.below(100);
                let id = if r < 60 && !actives[asset].is_empty() {
                    *rng.pick(&actives[asset])
                } else if r < 85 && !created_here[asset].is_empty() {
                    *rng.pick(&created_here[asset])
                } else {
                    rng.below(next_ids[asset] as u64) as usize
                };
                invisible += 1;
                if w < self.w_new + self.w_cancel {
                    out.push(Ins::Cancel { asset, id });
                } else {
                    let price = match rng.below(4) {
                        0 => None,
                        _ => Some(self.price(rng, asset)),
                    };
                    let vol = match rng.below(4) {
                        0 => None,
                        1 => Some(rng.range(1, 10) as u32),
                        _ => Some(rng.range(1, 80) as u32),
                    };
                    out.push(Ins::Modify { asset, id, price, vol });
                }
            }
        }
        out
    }

    /// Batch of the resume regime (after a halt that left the book crossed): instructions sized to fill *exactly* - a
    /// modification to `current volume + volume of the k best admissible opposite orders` (price unchanged, restated or
    /// moved), so that the order trades and may come out with the volume it had, and new orders sized to the admissible
    /// opposite volume.
    pub fn exact_batch<E: SimEnv>(&self, rng: &mut Sm, env: &E, n: usize) -> Vec<Ins> {
        let mut out = Vec::with_capacity(n);
        for _ in 0..n {
            let asset = rng.below(E::ASSETS as u64) as usize;
            let orders = env.env_orders(asset);
            let act: Vec<&ROrder> = orders.iter().filter(|o| o.status == ACTIVE).collect();
            let admissible = |bid: bool, price: u32| -> Vec<u32> {
                let mut v: Vec<&&ROrder> = act.iter().filter(|o| o.bid != bid && if bid { o.price <= price } else { o.price >= price }).collect();
                v.sort_by_key(|o| (if bid { o.price as i64 } else { -(o.price as i64) }, o.id));
                v.iter().map(|o| o.vol).collect()
            };
            if !act.is_empty() && rng.chance(0.7) {
                let o = *rng.pick(&act);
                let price = match rng.below(3) {
                    0 => None,
                    1 => Some(o.price),
                    _ => Some(self.price(rng, asset)),
                };
                let vols = admissible(o.bid, price.unwrap_or(o.price));
                let k = if vols.is_empty() { 0 } else { rng.range(1, vols.len() as u64) as usize };
                let extra: u32 = vols[..k].iter().sum();
                // volumes stay small (valid histories: per-side resting volume far below 2^32 even over thousands of steps)
                let vol = if extra == 0 && rng.chance(0.5) {
                    None
                } else if o.vol as u64 + extra as u64 > 50_000 {
                    Some(rng.range(1, 80) as u32)
                } else {
                    Some(o.vol + extra)
                };
                out.push(Ins::Modify { asset, id: o.id, price, vol });
            } else {
                let bid = rng.chance(0.5);
                let p = self.price(rng, asset);
                let vols = admissible(bid, p);
                let k = if vols.is_empty() { 0 } else { rng.range(1, vols.len() as u64) as usize };
                let exact: u32 = vols[..k].iter().sum();
                let vol = if exact == 0 || exact > 50_000 { rng.range(1, 60) as u32 } else { exact };
                out.push(Ins::New { asset, bid, vol, trader: rng.below(30) as u32, price: Some(p) });
            }
        }
        out
    }
}
