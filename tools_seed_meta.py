#!/usr/bin/env python3
"""Write seeded/<id>/meta.json for the round-3 seeded changes (suffixes C, D) and the round-3 negative cases.
The table below was filled in by hand from the sub-agents' reports and from the runs recorded in DESIGN.md section 7."""
import json, os

V = "/verif/seeded"
ROUND3 = {
 "C01C": ("replace_order builds the re-queue key from the raw clock instead of the unique stamp counter: a re-priced order can jump ahead of, or evict, an order resting at the target price", "two queue insertions in one clock tick (different prices), clock advanced to at most that stamp, then an Event::Modify re-queuing onto the same (side, price)", ["C01"], None),
 "C01D": ("in-place volume increase for an order alone at its level; the bid 'alone?' lookup uses the inverted key price, i.e. inspects the level at 2^32-1-p", "a bid at p with another bid behind it, exactly one bid resting at the mirrored price 2^32-1-p, then a volume-only increase of the first", ["C01", "C06", "C05"], "generators never put orders at p and at 2^32-1-p on one side; a mirror-price mode (ticks dividing 2^32-1) was added to the shared random generator after this seed was missed"),
 "C02C": ("modify_order amends created-but-unplaced orders and stores the raw new price as queue key (wrong for bids, whose keys are inverted)", "create_order(bid), modify with a new price while still New, then place", ["C02"], None),
 "C02D": ("enable_trading un-crosses the book; the volume taken off the aggressor's own side is its lifetime executed volume, not what it traded in this pass", "book crossed while disabled, the later-queued touch order already partially filled or volume-modified, trading re-enabled", ["C02"], None),
 "C03C": ("match_orders stamps trades with the aggressor's arrival time instead of the book time", "a resting order that trades through a later modify_order after the clock advanced", ["C03"], None),
 "C03D": ("trade_vol no longer serialised; rebuilt on load as the sum of the whole trade log", "trade, reset_trade_vol, snapshot, reload", ["C03"], None),
 "C04C": ("match_orders stamps end_time of filled orders (and trades) with the aggressor's arrival time", "resting order re-priced across the spread after the clock advanced", ["C04"], None),
 "C04D": ("cancel_order cancels exactly when the queue key could be removed (status check dropped): an unplaced order shares the provisional key (price, 0) with the first order ever queued in a book started at time 0", "book started at t=0, first queued order still resting with stamp 0, cancel of a created-but-unplaced limit order at the same side and price", ["C04", "C01"], "exhaustive alphabets had no unplaced orders and started at t=10, random histories started at 0 with probability 0.0008; `Create` ops + t0=0 alphabets and t0=0 in a fifth of the random histories were added after this seed was missed"),
 "C05C": ("next_key_time rebuilt on load from the last Active order by id instead of the maximum stamp", "tied insertions, a lower-id order holding a later stamp (re-queuing modify), save/reload, another same-price insertion before the clock passes the shadowed stamp", ["C05"], None),
 "C05D": ("set_time pulls the unique-stamp counter back when the clock is set backwards (end of an over-full step)", "a step with at least step_size+2 instructions, an overflow-index order still resting, a same-price insertion at the matching index of the next step", ["C05"], None),
 "C06C": ("replace_order stamps the re-queued order with the raw clock", "burst of placements in one tick, one of them at the target price, replace-type modify one or two ticks later", ["C06"], None),
 "C06D": ("replace_order re-matches only when the price moved towards the touch", "book crossed while trading was off, trading re-enabled, replace-type modify that keeps or backs off the price but still crosses", ["C06"], None),
 "C07C": ("trade_vol recomputed from the stored trades on load", "trade, reset_trade_vol (every environment step does this), snapshot, reload", ["C07"], None),
 "C07D": ("next_key_time rebuilt on load from the last placed order only", "several orders queued in one tick, last placed order filled or an older order re-queued, reload, clock advanced by less than the run-ahead, new order joining the level, later match", ["C07"], None),
 "C08C": ("Env/MarketEnv::modify_order drop new_price at submission when it equals the current price", "modify restating the current price with a smaller/absent volume, another order behind at that price, later partial fill", ["C08"], None),
 "C08D": ("carry-over guard in step compares the batch length with step_size-1: one instruction stays queued", "a batch of exactly step_size instructions", ["C08"], None),
 "C09C": ("MarketEnv::step regroups batches of more than 256 events by asset through a HashMap: time-stamps depend on hash order", "multi-asset environment, more than 256 instructions in one step (about 80+ agents per set)", ["C09"], "C09 configurations had 2..30 agents per set; every seventh configuration is now crowded (150..450 agents at full activity) — added after this seed was missed"),
 "C09D": ("progress-bar branch runs n_steps/block blocks of block steps and drops the remainder", "show_progress, n_steps >= 200 and not a multiple of n_steps/100", ["C09"], None),
 "C10C": ("cancel of a still-queued (New) order is applied at submission instead of being queued", "a cancel aimed at an order submitted since the last step", ["C10"], None),
 "C10D": ("step refreshes the cached level-2 snapshot only when trades/touch/totals/touch-level changed", "a trade-free step that only moves volume behind the touch", ["C10"], None),
 "C11C": ("enable_trading un-crosses the book: trades happen between steps and are wiped from the next step's traded volume", "book crossed while trading was off, enable_trading on the still-crossed book", ["C11"], None),
 "C11D": ("match_orders stamps trades with the aggressor's arrival time", "price-crossing Modify of an order placed in an earlier step", ["C11"], None),
 "C12C": ("modify_order amends unplaced orders before the tick-grid check", "off-grid modify reaching an order before it is placed (same-step place+modify with the modify shuffled first)", ["C12"], None),
 "C12D": ("level queries rewritten as one range scan with a saturating exclusive end: a bid at price 0 is dropped", "a bid resting at price 0 with the best bid fewer than LEVELS ticks above zero", ["C12"], None),
 "C13C": ("replace_order skips matching unless the replacement improves its price", "book crossed while disabled, re-enabled, modify that backs off but still crosses or only increases the volume", ["C13"], None),
 "C13D": ("a crossed snapshot is restored with trading forced off", "crossed while disabled, re-enabled while still crossed, save/load, aggressor on the reloaded book", ["C13"], None),
 "C14C": ("Market::modify_order returns early when the modify restates the current price/volume", "restating modify, another order behind at that price, later partial fill of the level", ["C14"], None),
 "C14D": ("MarketEnv::step refreshes an asset's level-2 data only when touch prices or totals changed", "a step that moves volume between levels behind the touch of one asset", ["C14"], None),
 "C15C": ("after the shuffle, cancels/modifies whose target is still New are moved to the back", "a batch holding a cancel or modify of an order placed in the same step", ["C15"], None),
 "C15D": ("the shuffle is skipped (and the generator not consulted) while trading is disabled", "a step run while trading is off", ["C15"], "C15 only stepped trading-enabled environments; a third of the environments now run steps with trading disabled (twin checks compare with a trading-enabled twin) — added after this seed was missed"),
 "C16C": ("noise and momentum agents take the mid-price from the cached level-2 data via ask.abs_diff(bid)", "a no-trading period with a crossed book: buys are quoted above the true mid", ["C16"], "C16 simulations always traded; 30% now spend all or half of their steps with trading disabled on a crossed harness book — added after this seed was missed"),
 "C16D": ("noise agents trim market orders to the volume available on the opposite side", "0 < opposite-side volume < trade_vol while a market order is drawn", ["C16"], None),
 "C17C": ("early return at p_market == 0 omits the momentum write-back", "decay != 1, a step where the momentum cancels exactly to zero, one further step", ["C17"], None),
 "C17D": ("direction taken from the sign of demand*tanh(scale*M) instead of the sign of M", "exactly one of demand / scale negative, moving price", ["C17"], "C17 configurations only used positive demand and scale; a fifth now carry a negative demand and a fifth a negative scale — added after this seed was missed"),
 "C18C": ("Python OrderBook.modify_order returns early when price and volume equal the current ones", "restating modify, order behind at that price, partial fill; or crossed book re-enabled", ["C18"], None),
 "C18D": ("StepEnv.cancel_order does not queue cancels of finished orders (shuffle input differs from the core's)", "cancel of an already finished order submitted with other instructions in one step", ["C18"], None),
 "C19C": ("StepEnvNumpy.level_2_data stops filling at the first level that is empty on both sides", "bid and ask empty at the same level offset with orders resting deeper", ["C19"], None),
 "C19D": ("Env::step returns early on an empty queue, before reset_trade_vol: element 0 of all observation arrays keeps the previous step's traded volume", "a step with a trade followed by a step with nothing queued", ["C19", "C08"], "C19 filled element 0 from the environment's own counter and never stepped an empty queue; the traded volume is now recomputed from the trade log and a fifth of the steps are quiet — added after this seed was missed"),
 "C20C": ("fields grouped by the token string of their type; multi-field groups updated in one loop", "three or more fields with one agent type repeated in non-adjacent positions", ["C20"], None),
 "C20D": ("derive skips fields whose type text contains 'PhantomData'", "an agent field whose type merely mentions PhantomData", ["C20"], "generated shapes had no field type mentioning marker/container types; generic probes over PhantomData/Option/Vec/arrays/fn pointers/references/unit, boxed probes and aliases were added after this seed was missed"),
}

for sid, (change, needs, caught, strengthened) in ROUND3.items():
    d = os.path.join(V, sid)
    if not os.path.isdir(d):
        print("missing", sid)
        continue
    conf = open(os.path.join(d, ".confirm")).read().strip() if os.path.exists(os.path.join(d, ".confirm")) else ""
    py = os.path.exists(os.path.join(d, "demo.py"))
    meta = {
        "id": sid,
        "round": 3,
        "breaks_property": sid[:3],
        "change": change,
        "needs_to_manifest": needs,
        "source": "independent sub-agent given only the property text and a scratch worktree",
        "confirmed": {"baseline_tests_with_patch": "all pass (68+ incl. the 39 unit tests and doctests)", "demo_without_patch|with_patch": conf},
        "what_was_run": ("git worktree of /repo HEAD under /tmp; demonstration run without and with the patch (%s); git apply patch.diff; cargo test --workspace --no-fail-fast --offline; "
                         "then `VERIF_REPO=<worktree> ./check run <ID> quick` (tools_try_seed.sh); worktree removed") % ("tools_confirm_pyseed.sh: extension built twice, demo.py <so> <root>" if py else "tools_confirm_seed.sh: demo copied into the crate's tests/ directory"),
        "caught_by_quick_checks": caught,
    }
    if strengthened:
        meta["missed_at_first"] = True
        meta["strengthening"] = strengthened
    json.dump(meta, open(os.path.join(d, "meta.json"), "w"), indent=1)
print("ok", len(ROUND3))
