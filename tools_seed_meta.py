#!/usr/bin/env python3
"""Write seeded/<id>/meta.json for the round-3 seeded changes (suffixes C, D) and the round-3 negative cases.
The table below was filled in by hand from the sub-agents' reports and from the runs recorded in DESIGN.md section 7."""
import json, os

V = "/verif/seeded"
ROUND3 = {
 "C01C": ("replace_order builds the re-queue key from the raw clock instead of the unique stamp counter: a re-priced order can jump ahead of, or evict, an order resting at the target price", "two queue insertions in one clock tick (different prices), clock advanced to at most that stamp, then an Event::Modify re-queuing onto the same (side, price)", ["C01"], None),
 "C01D": ("in-place volume increase for an order alone at its level; the bid 'alone?' lookup uses the inverted key price, i.e. inspects the level at 2^32-1-p", "a bid at p with another bid behind it, exactly one bid resting at the mirrored price 2^32-1-p, then a volume-only increase of the first", ["C01", "C06", "C05"], "generators never put orders at p and at 2^32-1-p on one side; a mirror-price mode (ticks dividing 2^32-1) was added to the shared random generator after this seed was missed"),
 "C02C": ("modify_order amends created-but-unplaced orders and stores the raw new price as queue key (wrong for bids, whose keys are inverted)", "create_order(bid), modify with a new price while still New, then place", ["C02"], None),
 "C02D": ("enable_trading un-crosses the book; the volume taken off the aggressor's own side is its lifetime executed volume, not what it traded in this pass", "book crossed while disabled, the later-queued touch order already partially filled or volume-modified, trading re-enabled", ["C02"], None),
 "C03C": ("match_orders stamps trades with the aggressor's arrival time instead of the book time", "a resting order that trades through a later modify_order after the clock advanced", ["C03"], None),
 "C03D": ("trade_vol no longer serialised; rebuilt on load as the sum of the whole trade log", "trade, reset_trade_vol, snapshot, reload", ["C03"], None),
 "C04C": ("match_orders stamps end_time of filled orders (and trades) with the aggressor's arrival time", "resting order re-priced across the spread after the clock advanced", ["C04"], None),
 "C04D": ("cancel_order cancels exactly when the queue key could be removed (status check dropped): an unplaced order shares the provisional key (price, 0) with the first order ever queued in a book started at time 0", "book started at t=0, first queued order still resting with stamp 0, cancel of a created-but-unplaced limit order at the same side and price", ["C04", "C01"], "exhaustive alphabets had no unplaced orders and started at t=10, random histories started at 0 with probability 0.0008; `Create` ops + t0=0 alphabets and t0=0 in a fifth of the random histories were added after this seed was missed"),
 "C05C": ("next_key_time rebuilt on load from the last Active order by id instead of the maximum stamp", "tied insertions, a lower-id order holding a later stamp (re-queuing modify), save/reload, another same-price insertion before the clock passes the shadowed stamp", ["C05"], None),
 "C05D": ("set_time pulls the unique-stamp counter back when the clock is set backwards (end of an over-full step)", "a step with at least step_size+2 instructions, an overflow-index order still resting, a same-price insertion at the matching index of the next step", ["C05"], None),
 "C06C": ("replace_order stamps the re-queued order with the raw clock", "burst of placements in one tick, one of them at the target price, replace-type modify one or two ticks later", ["C06"], None),
 "C06D": ("replace_order re-matches only when the price moved towards the touch", "book crossed while trading was off, trading re-enabled, replace-type modify that keeps or backs off the price but still crosses", ["C06"], None),
 "C07C": ("trade_vol recomputed from the stored trades on load", "trade, reset_trade_vol (every environment step does this), snapshot, reload", ["C07"], None),
 "C07D": ("next_key_time rebuilt on load from the last placed order only", "several orders queued in one tick, last placed order filled or an older order re-queued, reload, clock advanced by less than the run-ahead, new order joining the level, later match", ["C07"], None),
 "C08C": ("Env/MarketEnv::modify_order drop new_price at submission when it equals the current price", "modify restating the current price with a smaller/absent volume, another order behind at that price, later partial fill", ["C08"], None),
 "C08D": ("carry-over guard in step compares the batch length with step_size-1: one instruction stays queued", "a batch of exactly step_size instructions", ["C08"], None),
 "C09C": ("MarketEnv::step regroups batches of more than 256 events by asset through a HashMap: time-stamps depend on hash order", "multi-asset environment, more than 256 instructions in one step (about 80+ agents per set)", ["C09"], "C09 configurations had 2..30 agents per set; every seventh configuration is now crowded (150..450 agents at full activity) — added after this seed was missed"),
 "C09D": ("progress-bar branch runs n_steps/block blocks of block steps and drops the remainder", "show_progress, n_steps >= 200 and not a multiple of n_steps/100", ["C09"], None),
 "C10C": ("cancel of a still-queued (New) order is applied at submission instead of being queued", "a cancel aimed at an order submitted since the last step", ["C10"], None),
 "C10D": ("step refreshes the cached level-2 snapshot only when trades/touch/totals/touch-level changed", "a trade-free step that only moves volume behind the touch", ["C10"], None),
 "C11C": ("enable_trading un-crosses the book: trades happen between steps and are wiped from the next step's traded volume", "book crossed while trading was off, enable_trading on the still-crossed book", ["C11"], None),
 "C11D": ("match_orders stamps trades with the aggressor's arrival time", "price-crossing Modify of an order placed in an earlier step", ["C11"], None),
 "C12C": ("modify_order amends unplaced orders before the tick-grid check", "off-grid modify reaching an order before it is placed (same-step place+modify with the modify shuffled first)", ["C12"], None),
 "C12D": ("level queries rewritten as one range scan with a saturating exclusive end: a bid at price 0 is dropped", "a bid resting at price 0 with the best bid fewer than LEVELS ticks above zero", ["C12"], None),
 "C13C": ("replace_order skips matching unless the replacement improves its price", "book crossed while disabled, re-enabled, modify that backs off but still crosses or only increases the volume", ["C13"], None),
 "C13D": ("a crossed snapshot is restored with trading forced off", "crossed while disabled, re-enabled while still crossed, save/load, aggressor on the reloaded book", ["C13"], None),
 "C14C": ("Market::modify_order returns early when the modify restates the current price/volume", "restating modify, another order behind at that price, later partial fill of the level", ["C14"], None),
 "C14D": ("MarketEnv::step refreshes an asset's level-2 data only when touch prices or totals changed", "a step that moves volume between levels behind the touch of one asset", ["C14"], None),
 "C15C": ("after the shuffle, cancels/modifies whose target is still New are moved to the back", "a batch holding a cancel or modify of an order placed in the same step", ["C15"], None),
 "C15D": ("the shuffle is skipped (and the generator not consulted) while trading is disabled", "a step run while trading is off", ["C15"], "C15 only stepped trading-enabled environments; a third of the environments now run steps with trading disabled (twin checks compare with a trading-enabled twin) — added after this seed was missed"),
 "C16C": ("noise and momentum agents take the mid-price from the cached level-2 data via ask.abs_diff(bid)", "a no-trading period with a crossed book: buys are quoted above the true mid", ["C16"], "C16 simulations always traded; 30% now spend all or half of their steps with trading disabled on a crossed harness book — added after this seed was missed"),
 "C16D": ("noise agents trim market orders to the volume available on the opposite side", "0 < opposite-side volume < trade_vol while a market order is drawn", ["C16"], None),
 "C17C": ("early return at p_market == 0 omits the momentum write-back", "decay != 1, a step where the momentum cancels exactly to zero, one further step", ["C17"], None),
 "C17D": ("direction taken from the sign of demand*tanh(scale*M) instead of the sign of M", "exactly one of demand / scale negative, moving price", ["C17"], "C17 configurations only used positive demand and scale; a fifth now carry a negative demand and a fifth a negative scale — added after this seed was missed"),
 "C18C": ("Python OrderBook.modify_order returns early when price and volume equal the current ones", "restating modify, order behind at that price, partial fill; or crossed book re-enabled", ["C18"], None),
 "C18D": ("StepEnv.cancel_order does not queue cancels of finished orders (shuffle input differs from the core's)", "cancel of an already finished order submitted with other instructions in one step", ["C18"], None),
 "C19C": ("StepEnvNumpy.level_2_data stops filling at the first level that is empty on both sides", "bid and ask empty at the same level offset with orders resting deeper", ["C19"], None),
 "C19D": ("Env::step returns early on an empty queue, before reset_trade_vol: element 0 of all observation arrays keeps the previous step's traded volume", "a step with a trade followed by a step with nothing queued", ["C19", "C08"], "C19 filled element 0 from the environment's own counter and never stepped an empty queue; the traded volume is now recomputed from the trade log and a fifth of the steps are quiet — added after this seed was missed"),
 "C20C": ("fields grouped by the token string of their type; multi-field groups updated in one loop", "three or more fields with one agent type repeated in non-adjacent positions", ["C20"], None),
 "C20D": ("derive skips fields whose type text contains 'PhantomData'", "an agent field whose type merely mentions PhantomData", ["C20"], "generated shapes had no field type mentioning marker/container types; generic probes over PhantomData/Option/Vec/arrays/fn pointers/references/unit, boxed probes and aliases were added after this seed was missed"),
}

ROUND4 = {
 "C01E": ("replace_order stamps the re-queued order with the raw clock (merged bid/ask arms)", "burst of two or more insertions in one instant, then an Event::Modify onto such a level while the clock is at or below that stamp", ["C01"], None),
 "C01F": ("queue key (price, time) packed into one u64 as (price << 32) | t: the high half of a 64-bit time bleeds into the price bits", "an order queued at t >= 2^32 whose price key has a zero bit where t >> 32 has a one", ["C01"], None),
 "C02E": ("snapshot reload sets next_key_time to the clock instead of scanning the stored keys", "two orders queued in one instant, reload, clock advanced to exactly the later key time, same-price insertion, then a cancel or fill", ["C02"], None),
 "C02F": ("modify_order edits unplaced orders but leaves the price stored in the queue key", "create_order, price modification while unplaced, place_order with part of the order resting", ["C02"], None),
 "C03E": ("trade_vol not stored in the snapshot; rebuilt as the sum of all logged trades", "trade, reset_trade_vol, save and reload", ["C03"], None),
 "C03F": ("price-only modify re-queues the order with its start_vol instead of its remaining volume", "an order partially filled or volume-modified earlier, then a modify with a new price and no volume", ["C03"], None),
 "C04E": ("end_time stamping moved into place_order; the modify path never stamps the aggressor", "a resting order modified into a cross and completely filled", ["C04"], None),
 "C04F": ("place_order accepts Rejected orders again once trading is enabled", "market order rejected during a halt, trading re-enabled, same id placed again", ["C04"], None),
 "C05E": ("next_key_time rebuilt on load from the last Active order in id order", "reload, resting orders whose queueing order differs from id order, same-price insertion before the clock passes the forgotten stamp", ["C05"], None),
 "C05F": ("stamp counter kept as a lead over the clock that does not grow when the clock is set back", "a step with at least step_size+2 instructions, a late order still resting, a same-price order on the matching stamp offset of the next step", ["C05"], None),
 "C06E": ("replace_order matches only when the price moves towards the touch", "book crossed during a halt, trading re-enabled, crossing resting order modified with price omitted, unchanged or moved away", ["C06"], None),
 "C06F": ("replace_order keys the re-queued order with the raw clock", "burst of two or more orders in one instant, non-reduction modify onto the level of a later burst order before the clock caught up", ["C06"], None),
 "C07E": ("next_key_time recovered on load from the highest-id placed order only", "burst of insertions ending in a modify re-queue or out-of-order place, reload, clock advanced by less than the run-ahead, same-price order, later partial match", ["C07"], None),
 "C07F": ("snapshot files opened without truncation", "file-based save over a longer existing file", ["C07"], None),
 "C08E": ("carry-over feature with capacity step_size-1", "a batch of exactly step_size instructions", ["C08"], None),
 "C08F": ("process_event reduces a modify whose new_vol equals the current volume to a no-op", "Event::Modify with no price and the exact remaining volume, a second order behind at that price, later partial fill, single-asset Env", ["C08"], None),
 "C09E": ("MarketEnv::step buckets batches of 64+ instructions per asset in a HashMap and hands out time-stamps in iteration order", "two or more assets, at least 64 instructions in one step", ["C09"], None),
 "C09F": ("runners seed through seed.max(1): seeds 0 and 1 give identical runs", "seed exactly 0 compared with seed 1", ["C09"], None),
 "C10E": ("cached level-2 snapshot refreshed only when a book revision counter moved; in-place volume reductions do not bump it", "a step whose only effective instructions are volume-reducing modifies", ["C10"], None),
 "C10F": ("market orders submitted while trading is disabled are rejected at submission", "a no-trading state and a market order", ["C10"], None),
 "C11E": ("level-2 snapshot rebuilt only when a revision counter moved (not bumped by in-place reductions)", "single-asset step whose only effective instructions are volume-only reductions", ["C11"], None),
 "C11F": ("MarketEnv resets each book's trade counter lazily when the asset is first addressed in a step", "an asset trades in step j and receives no instruction in step j+1", ["C11"], None),
 "C12E": ("level queries as one half-open range scan whose upper bound saturates", "a bid at exactly price 0, or an ask at exactly 2^32-1 with a tick dividing it, within LEVELS ticks of the touch", ["C12"], None),
 "C12F": ("shared check_price helper exempts 2^32-1 from the tick check", "an explicit limit price of exactly 2^32-1 on a tick that does not divide it", ["C12"], None),
 "C13E": ("replace_order matches only when the price moves towards the opposite side", "crossed during a halt, re-enabled, crossing order modified to a same or further price that still crosses", ["C13"], None),
 "C13F": ("Market caches a trading flag (serde-skipped) and swallows toggles that match the cache", "a Market loaded from a snapshot then disabled; or a single book halted through get_order_book_mut then a market-wide enable", ["C13"], None),
 "C14E": ("MarketEnv::step caps the per-event time-stamp offset at step_size-1", "a step whose shared queue holds more than step_size instructions", ["C14", "C05"], "C14's environment sessions kept batches within the step size (over-full steps were only driven by C05, which reported this seed); a second family of over-full multi-asset sessions was added to C14 after this seed was missed by C14 itself"),
 "C14F": ("Market::modify_order returns early when price and volume equal the current values", "restating modify, order behind at that price, partial fill; or crossed book re-enabled", ["C14"], None),
 "C15E": ("Env::step swaps a cancel/modify shuffled ahead of the New of the same order", "a batch containing the placement and a cancel/modify of the same order", ["C15"], None),
 "C15F": ("MarketEnv::step stably sorts the shuffled queue by asset index", "two or more assets addressed in one batch", ["C15"], None),
 "C16E": ("momentum agents return early when the mid-price equals the previous step's", "decay < 1, non-zero momentum, mid exactly unchanged between two steps, saturated demand", ["C16", "C17"], "C16 did not judge the activity of momentum agents (only their cancel probability) and C17's paths never held the mid while momentum was fading; C16 now recomputes M and the documented probability from the observed mids, C17 paths contain holds — added after this seed was missed"),
 "C16F": ("buy limit prices floored at the lowest non-zero tick instead of 0", "best ask on the lowest non-zero tick and the bid side empty", ["C16"], None),
 "C17E": ("early return when the limit-order probability is 0 (order ratio 0) skips the market orders too", "order_ratio exactly 0 and a moving mid", ["C17"], None),
 "C17F": ("momentum agents take the mid from cached level-2 data with a saturating spread", "trading disabled, crossed harness quotes over consecutive steps, ask moving differently from the bid", ["C17", "C16"], "C17's harness only imposed mids through uncrossed quotes with trading enabled; 15% of the paths now run in a no-trading period with crossed quotes of varying width — added after this seed was missed"),
 "C18E": ("Python OrderBook.modify_order drops a new_price equal to the current price", "modify with the order's own price and a smaller/omitted volume, order ahead of another at its level, later partial fill", ["C18"], None),
 "C18F": ("StepEnv.cancel_order drops repeated cancellations of one id within a step", "the same id cancelled twice between two steps plus another instruction", ["C18"], None),
 "C19E": ("Env::step returns early on an empty queue before reset_trade_vol", "a trading step followed by a step with nothing queued", ["C19"], None),
 "C19F": ("StepEnv caches the 45-value observation at the end of step(); the cache starts as zeros", "arrays read before the first step", ["C19"], "C19 scripts read the arrays only after steps; reads on the freshly constructed environment and between submissions and the step were added after this seed was missed"),
 "C20E": ("both derives skip fields whose type is not a plain path type", "a field type that reaches the derive as a group ($t:ty fragment), parenthesised type or type macro", ["C20"], "all generated field types were plain paths; parenthesised, type-macro, qualified-path and macro_rules-declared field types were added after this seed was missed"),
 "C20F": ("shared helper returns field names as a BTreeSet: fields updated in lexicographic order", "fields declared out of name order", ["C20"], None),
}

ALL = [(3, k, v) for k, v in ROUND3.items()] + [(4, k, v) for k, v in ROUND4.items()]
for rnd, sid, (change, needs, caught, strengthened) in ALL:
    d = os.path.join(V, sid)
    if not os.path.isdir(d):
        print("missing", sid)
        continue
    conf = open(os.path.join(d, ".confirm")).read().strip() if os.path.exists(os.path.join(d, ".confirm")) else ""
    py = os.path.exists(os.path.join(d, "demo.py"))
    meta = {
        "id": sid,
        "round": rnd,
        "breaks_property": sid[:3],
        "change": change,
        "needs_to_manifest": needs,
        "source": "independent sub-agent given only the property text and a scratch worktree",
        "confirmed": {"baseline_tests_with_patch": "all pass (68+ incl. the 39 unit tests and doctests)", "demo_without_patch|with_patch": conf},
        "what_was_run": ("git worktree of /repo HEAD under /tmp; demonstration run without and with the patch (%s); git apply patch.diff; cargo test --workspace --no-fail-fast --offline; "
                         "then `VERIF_REPO=<worktree> ./check run <ID> quick` (tools_try_seed.sh); worktree removed") % ("tools_confirm_pyseed.sh: extension built twice, demo.py <so> <root>" if py else "tools_confirm_seed.sh: demo copied into the crate's tests/ directory"),
        "caught_by_quick_checks": caught,
    }
    if strengthened:
        meta["missed_at_first"] = True
        meta["strengthening"] = strengthened
    json.dump(meta, open(os.path.join(d, "meta.json"), "w"), indent=1)
print("ok", len(ALL))
