#!/bin/bash
# Re-run every stored seeded change (seeded/C*/patch.diff) against its owning quick check; negative cases against theirs.
# usage: tools_regress_seeds.sh [parallelism]   — prints one line per seed: "<id> <check> VIOLATION|OK|INCONCLUSIVE"
PAR=${1:-4}
mkdir -p /tmp/seedrun/logs; rm -f /tmp/seedrun/logs/*
one() {
  d=$1; id=$(basename $d)
  case $id in
    neg-1*) checks="C08 C15 C14";; neg-2*) checks="C12 C06";; neg-3*) checks="C01 C05 C07";;
    neg-r*) checks="C01 C02 C03 C04 C05 C06 C07 C08 C09 C10 C11 C12 C13 C14 C15 C16 C17 C18 C19 C20";;
    *) checks=${id:0:3};;
  esac
  ${VERIF_HOME:-/verif}/tools_try_seed.sh $d/patch.diff $id $checks > /tmp/seedrun/logs/$id.log 2>&1
}
export -f one
ls -d ${VERIF_HOME:-/verif}/seeded/*/ | sed 's#/$##' | xargs -P $PAR -I{} bash -c 'one {}'
for f in /tmp/seedrun/logs/*.log; do
  id=$(basename $f .log)
  grep "RESULT $id C" $f | sed -E 's/RESULT ([^ ]+) (C[0-9]+) :: (OK|VIOLATION|INCONCLUSIVE).*/\1 \2 \3/'
done
rm -rf /tmp/seedrun
