#!/usr/bin/env python3
"""Regenerates MANIFEST.json (kept as a script so that the per-check texts live in one place)."""
import json
T = {
 "C01": ("exploration", "reference-model monitor (lock-step naive matching engine) over bounded-exhaustive and seeded random histories; queue order via hook H2 and drain probes",
   "After every operation of every explored history the real book's order records, trade records, creation results, clock and complete queue order are compared with an independent ~250-line reference matching engine; quick: every sequence to depth 4 over the C01 alphabet with clock advance 0/1 (1.47M sequences) plus 3300 random histories; thorough: depth 5 (advance 0/1), depth 6 (advance 1), a second tick/price alphabet and 170k random histories. Held-on-what-was-explored, not a proof.",
   "Trusted: the reference engine (cross-validated by the independent C02/C03/C04 monitors), the generators' validity rules, rustc. Tied histories are cut at the first tie and left to C05."),
 "C02": ("exploration", "recomputation monitor: every published view recomputed from get_orders() alone after every operation",
   "Every getter (touch prices, totals, touch volumes/counts, levels, level-1/2 records, mid-price) is compared with a value recomputed from the list of active orders, the views are compared with one another, and bid < ask is asserted while trading has never been disabled; states come from exhaustive sequences with modifies and toggles and from random histories with reloads; level counts 1,2,3,5,10,24.",
   "No reference model involved. Hook H2 adds the occupied-level dump. Level counts other than 1,2,3,5,10,24 are not monomorphised."),
 "C03": ("exploration", "ledger-audit monitor over the trade log (prefix immutability, per-order volume accounts, counter) after every operation",
   "The monitor keeps its own copy of the log, its own per-order account fed only by what the harness submitted, and its own running sum since the last reset; every new record is checked for time, side, price, volume, ids, opposite sides, admissible limits and a passive order that was resting before the call.",
   "Independent of the reference engine. Execution order inside one call is only observable as append order."),
 "C04": ("exploration", "per-order lifecycle automaton over consecutive snapshots plus full-snapshot equality around redundant requests",
   "Transitions, dense ids, immutable identity, arrival/end times and frozen terminal records are checked on every order after every operation; every redundant request (re-place, cancel/modify of a non-active order, empty modify, set_time) is bracketed by complete observable snapshots (views, orders, trades, queue order, JSON text) that must be equal.",
   "Market orders are known to the harness by how it created them. Includes tie histories at a low rate (the property does not exclude them)."),
 "C05": ("exploration", "all book monitors on tie histories (judged from the first tie insertion), plus over-full simulation steps judged by validated replay and invariants",
   "Exhaustive sequences with clock advance 0 allowed everywhere and random histories with a 70% tie rate run under the reference (FIFO among equal timestamps), views, ledger, lifecycle, modify, reachability and reload monitors; environments with batches up to 4x the step size are replayed on a plain book and checked for lost orders, consistent views and complete drains.",
   "Relative priority when a later-queued order carries a smaller timestamp (clock moved back by `step`) is deliberately not demanded beyond what the plain-book replay gives."),
 "C06": ("exploration", "reference-model monitor plus two metamorphic assertions on every effective modify",
   "Exhaustive modify alphabet (price in {unchanged, 3 grid prices} x volume in {unchanged,1,2,3}) on every existing order in every status to depth 4 (quick) / 5 (thorough), random histories with 45% modifies in both trading states; continuation and drain probes reveal the queue order.",
   "Same trusted base as C01."),
 "C07": ("fault_enumeration", "differential lock-step monitor (original vs reloaded copies through four routes) plus enumeration of every truncation offset of written snapshots",
   "Up to 6 reloaded copies are driven with the original and compared through complete observable snapshots after every operation; markets are reloaded and continued against never-serialised stand-alone books; every byte offset of written book and market snapshots (pretty and compact, all level counts) must be rejected, in a child process so that an abort is attributable.",
   "Compares observables, not JSON text. Truncation of files larger than those generated (tens of KiB) is not explored."),
 "C08": ("exploration", "shadow-replay monitor with schedule inference: some permutation of the batch replayed on a plain real order book must reproduce the environment",
   "Per step: clock = start + step size, queue empty (hook H1), per-step traded volume = sum of the step's trades, and existence of a consistent schedule (rand's permutation as a hint first, then a pruned search over the instructions without visible timestamps); 14 environment types, trading on/off.",
   "The search forks the shadow through JSON (C07 as an assumption of the search only). A different unbiased shuffle algorithm would be accepted."),
 "C09": ("exploration", "differential monitor over complete runs: same process twice, child OS processes with perturbed environment, progress-bar branch, neighbouring seed",
   "128-bit digests of orders, trades, all recorded series and clocks of 8 agent compositions through both derive macros and both runners.",
   "Digest collisions (2^-128) ignored; different-seed inequality only demanded for runs with >= 20 orders."),
 "C10": ("exploration", "full-snapshot equality monitor around every single submission; cached vs live level-2 data at every observation point",
   "Every submission between steps is bracketed by complete environment snapshots (live book views, orders, trades, all recorded series, cached level 2, pending length via H1); the only admissible change is one more order with status New.",
   "Instructions are generated so that they would trade/cancel/re-price if applied at once."),
 "C11": ("exploration", "recording monitor: the harness keeps its own rows read from the live book after each step and compares every recorded series entry by entry",
   "All series of all assets of 10 environment types, asymmetric books with several populated levels; per-step traded volume recomputed from the trade log.",
   "Live getters are validated independently by C02."),
 "C12": ("exploration", "grid monitor: accept iff on-grid, no-trace snapshots around rejected creations, grid scan and level accounting after every operation; through book, market and environments",
   "Arbitrary u32 prices (uniform, near multiples, boundaries), ticks 1..10 plus large ticks for the accept/reject clause, off-grid modifies at any point.",
   "What an off-grid modify does is deliberately left open; only the absence of off-grid prices and the accounting identity are demanded."),
 "C13": ("exploration", "trading-flag monitor: no log growth while disabled, rejected market orders, toggle neutrality, reference-engine equality after re-enabling; book, market and environment level",
   "Exhaustive sequences with the toggle in the alphabet, random histories starting disabled 30% of the time, market fan-out, environment sessions with a 25% toggle rate.",
   "mid_price is not consulted here (owned by C02)."),
 "C14": ("exploration", "differential monitor: each asset of a Market / MarketEnv against a real stand-alone single-asset book in lock-step",
   "Per-asset snapshots, every per-asset and all-asset query in asset order, (asset, sequence) ids; 1..4 assets with distinct ticks; environment level through validated replay per asset.",
   "Differential against the same OrderBook code: matching semantics themselves are C01's."),
 "C15": ("exploration", "statistical monitor with an explicit false-alarm bound (Bernstein + union bound, 1e-9 per run) plus exact content-independence and replay checks",
   "All n! permutation cells for n=2..6, position and pair tables for n up to 64, over >= 2e5 seeded steps per size (2e6 for n=6; x10 in thorough); single- and multi-asset, mixed instruction kinds.",
   "Assumes streams from different seeds are independent. Subtle biases below the stated detection thresholds are not detectable."),
 "C16": ("exploration", "instruction-validity monitor around every agent update (order diff + pending-queue diff via H1), frequency bands, adversarial RngCore, catch_unwind",
   "One agent family per simulation; ticks 1..10, sigma up to 10, all starting books, 1..200 steps; 30% of the simulations under a generator that injects boundary words.",
   "Consistent parameterisations only."),
 "C17": ("exploration", "signal-recomputation monitor at saturated demand, Binomial band when unsaturated, and mirrored-run comparison on harness-controlled mid-price paths",
   "Rising/falling/mixed/flat/reversal paths, parameter grids, 1..20 traders, single- and multi-asset.",
   "Decisions only away from floating-point thresholds; prices are not compared in the mirrored runs."),
 "C18": ("exploration", "differential monitor across the FFI: scripted Python calls on the real extension vs the Rust core driven by the same sequence; snapshots cross-loaded",
   "Non-numpy API of OrderBook and StepEnv incl. off-grid (ValueError) and out-of-range (OverflowError) arguments with state-unchanged follow-ups.",
   "CPython 3.11 / numpy of the tooling venv; non-existent order ids are outside the valid call space."),
 "C19": ("exploration", "dynamic layout conformance: arrays, dictionaries and data frames produced by the real extension vs the documented layout filled from the Rust core; docstring tables parsed live",
   "All four array methods on asymmetric states, both market-data dictionaries, history getters, both data-frame helpers against a stub pandas.",
   "pandas itself is not installed; a stub records the column layout."),
 "C20": ("exploration", "differential probe monitor: derived update vs hand-written field-by-field sequence, call by call and draw by draw",
   "44 generated shapes per derive macro (1..8 fields, repeated types, nested sets, built-in agents in between), many seeds, 4 rounds each.",
   "Shapes are fixed at compile time (generated source committed)."),
}

# additions of the later rounds (kept separate so that the base texts above stay readable)
EXTRA = {
 "C01": " Later additions: alphabets with orders created but not placed and books started at time 0; random histories with orders at p and 2^32-1-p on one side, deep queues (270-640 orders on a level) and start time 0.",
 "C02": " Later additions: unplaced orders and start time 0 in the exhaustive alphabets; mirror-price and deep-queue histories.",
 "C04": " Later additions: unplaced orders / start time 0 alphabets; snapshot reloads in the random profile (a terminal record must survive a reload).",
 "C06": " Later additions: unplaced orders / start time 0 alphabets; snapshot reloads in the random profile.",
 "C08": " Later additions: effective cancellations pinned by their end time in the schedule search, budget counted on branching nodes, up to max(3, 0.2%) unsettled sessions tolerated and reported; crowded batches (257..700 instructions) and start time 0.",
 "C09": " Later additions: crowded configurations (150..450 agents per set), start time and trading flag varied, and the in-process repeat follows unrelated activity on the same thread (abandoned environments with pending instructions, a simulation abandoned after two steps).",
 "C12": " Later additions: the level accounting reads both the level getters and the level-2 record; an accepted creation must store the requested price; bids at price 0.",
 "C14": " Later additions: a second family of multi-asset sessions whose steps carry more instructions than the step size.",
 "C15": " Later additions: a third of the steps with trading disabled; a fifth of the environments run next to a twin (same history, same batches incl. several modifications to one price, cloned generator) whose snapshot text must agree after every step.",
 "C16": " Later additions: 30% of the simulations spend all or half of their steps in a no-trading period on a crossed harness book; the momentum signal is recomputed from the observed mids and side / saturated activity of momentum agents are judged; tick ranges at the top of the price range and from tick 0.",
 "C17": " Later additions: negative demand / scale, holds (mid unchanged while momentum fades), 15% of the paths in a no-trading period with crossed harness quotes of varying width, fractional order ratios.",
 "C18": " Later additions: positional / keyword argument forms, volume 0, and a second opinion for StepEnv scripts whose values leave the Rust twin (schedule inferred from the object's own time-stamps and reproduced on a plain Python OrderBook, all consistent schedules tracked, getters recomputed from the object's own lists, determinism on a second object, last-slot Hoeffding test at 1e-9 for instructions dropped before the shuffle), so that another generator inside the binding is not reported while bindings that alter the batch are.",
 "C19": " Later additions: every array / dictionary series / history getter is judged against the documented quantities recomputed from get_orders()/get_trades() of the same Python object, laid out as the live docstring tables say (rows mapped to quantities, any table style); traded volume from the trade log; quiet steps, reads before the first step and between submission and step, books at the bottom of the price range.",
 "C20": " Now 64 shapes per derive: generic probes over PhantomData/Option/Vec/arrays/fn pointers/references/unit, boxed probes, aliases, parenthesised / type-macro / qualified-path field types, structs declared through macro_rules, doc comments and attributes mentioning words a derive might look for.",
}
R7 = {
 "C03": " Later additions: the same audit per asset through Market<1..4, 12, 66 assets> (trade log prefix, record fields, get_trade_vols = sum since the last reset) with market-wide counter resets and resets of a single asset's book.",
 "C05": " Later additions: wide (12 / 66 assets) and level-less (LEVELS = 0) environments in a share of the over-full sessions.",
 "C07": " Later additions: markets with 12 and 66 assets (one market session in 37).",
 "C08": " Later additions: wide (12 / 66 assets) and level-less (LEVELS = 0) environments; a resume regime (start halted, crossed book, resume, exact-fill instructions); the environment's own per-step traded-volume series is read next to the book's counter.",
 "C09": " Later additions: chained simulations - other-seed runs of two and three steps that end exactly at, or one step before, the clock value at which the repeated run starts.",
 "C10": " Later additions: wide (12 / 66 assets) and level-less environments; resume regime (one session in twenty starts halted, rests crossing orders, resumes, then one or two instructions per step sized to fill exactly).",
 "C11": " Later additions: wide (12 / 66 assets) and level-less environments; resume regime.",
 "C12": " Later additions: wide markets and environments.",
 "C13": " Later additions: wide markets and environments; resume regime in the environment part.",
 "C14": " Later additions: markets and environments with 12 and 66 assets (more assets than levels, asset indexes beyond 10 and 64).",
 "C18": " Later additions: the executor overwrites a third of all returned lists / dicts / arrays in place (later calls must not depend on what the caller did with an earlier result).",
 "C19": " Later additions: arrays requested again within a step while the executor overwrites a third of the values it was handed back; one script in sixteen with step size 0, 1 or 2.",
 "C20": " Later additions: same-named derived sets in different modules nested through qualified paths; built-in members with silent / empty / saturated parameters.",
}
for k, v in R7.items():
    EXTRA[k] = EXTRA.get(k, "") + v
R8 = {
 "C01": " Coarse grids (ticks so large that the price range holds about as many grid prices as levels are published) in 3% of the random histories.",
 "C02": " Coarse grids in 3% of the random histories and in the all-level-counts pass (a panicking getter is reported as a violation).",
 "C03": " Coarse grids; books of one market advanced on their own clocks.",
 "C04": " Coarse grids.",
 "C05": " Coarse grids; the end time of an order cancelled in a step is compared with start + the position of the cancelling instruction in the reproducing schedule.",
 "C06": " Coarse grids.",
 "C07": " Coarse grids; single books of a market advanced on their own through get_order_book_mut(i).set_time, so that reloads must keep every book's own clock.",
 "C08": " Coarse grids in 2% of the sessions; end time of cancelled orders against the schedule position.",
 "C10": " A family of over-full sessions (more instructions than the step has time units); coarse grids.",
 "C11": " Coarse grids in 2% of the sessions.",
 "C12": " Coarse grids; books of one market on different clocks (a rejected creation must not move any of them).",
 "C13": " Over-full sessions with toggles; books of one market on different clocks around market-wide toggles.",
 "C14": " Books of one market advanced on their own clocks; coarse grids; end time of cancelled orders against the schedule position.",
 "C16": " One configuration in fifty with an empty population (must stay silent).",
 "C18": " Cancels / modifies of the id the next order will get, submitted before that order in the same step; step sizes just above 2^53 / 2^54 / 2^56.",
 "C19": " An ask resting at exactly 2^32-1 in half of the top-of-range scripts whose tick divides 2^32-1; coarse grids in 8% of the scripts.",
 "C20": " The sets are driven by a generator whose fallible byte draw fails on every third request when the seed is odd; two probe types log what try_fill_bytes returned.",
}
for k, v in R8.items():
    EXTRA[k] = EXTRA.get(k, "") + v
for k, v in EXTRA.items():
    c, tech, text, note = T[k]
    T[k] = (c, tech, text + v, note)
checks = []
for pid in sorted(T):
    cat, tech, text, note = T[pid]
    checks.append({
        "property_id": pid, "quick_cmd": "./check run %s quick" % pid, "thorough_cmd": "./check run %s thorough" % pid,
        "evidence_file": "/verif/evidence/%s.json" % pid, "replay_cmd_template": "./check replay {path}", "engine": "bvmon",
        "level_claimed": {"category": cat, "text": text, "design_ref": "DESIGN.md section 4, " + pid},
        "level_note": note, "technique": tech})
import subprocess
hook = subprocess.run(["git", "-C", "/repo", "log", "--format=%h %s"], capture_output=True, text=True).stdout.splitlines()
hook_commits = [l.split()[0] for l in hook if "verification hooks" in l]
m = {
 "version": 1, "setup_cmd": "./check setup",
 "hooks": {"guard": "cargo feature `verif` on bourse-book and bourse-de (off by default)",
           "enable": "the harness crate /verif/harness enables bourse-book/verif and bourse-de/verif through its default feature `hooks`; ./check falls back to --no-default-features if the tree does not build with hooks",
           "baseline_off_cmd": "cd /repo && cargo test --workspace --no-fail-fast --offline", "source_commits": hook_commits, "add_only": True},
 "engines": [{"name": "bvmon", "path": "/verif/harness", "serves_properties": sorted(T), "kind_free_text": "Rust harness: generators, reference engine, runtime monitors over real executions, one sub-command per property; Python executor pyharness/run_scripts.py for C18/C19"}],
 "checks": checks,
 "notes": "Runtime monitoring only: every check executes the real code and an oracle observes the executions. Exit 0 held on everything explored, 1 violation (VIOLATION property=<id> replay=<path>), 2 inconclusive. VERIF_SEED seeds every random choice. known_findings.json lists the genuine defects found (all repaired by fix: commits; none open). Supplementary screens that are not registered checks: `./check extra miri` (workload slices under the Miri interpreter), `./check extra valgrind` (C18/C19 scripts under memcheck) and `./check extra coverage` (line coverage of the repository's crates by the quick workloads, instrumented harness); seeded/ holds 279 independently written changes (276 property-breaking, 3 not adopted because their trigger lies outside the valid histories) and 33 property-preserving ones with what was run against them.",
 "not_applicable": [],
}
json.dump(m, open("/verif/MANIFEST.json", "w"), indent=1)
