#!/bin/bash
# usage: tools_confirm_seed.sh <prop> <X>  — confirms demo passes without and fails with the patch; stores under /verif/seeded/<prop><X>/
P=$1; X=$2; SRC=${SEEDROOT:-/tmp/seed}/$P/SEED/$X; ID=$P$X
WT=/tmp/seedconf/$ID; rm -rf $WT; mkdir -p /tmp/seedconf
git -C /repo worktree add -q --detach $WT HEAD || exit 3
DEMOS=$(ls $SRC/*.rs 2>/dev/null)
CR=$(grep -oh "crates/[a-z_]*/tests" $SRC/README.md | sort | uniq -c | sort -rn | head -1 | awk '{print $2}')
[ -z "$CR" ] && CR=crates/order_book/tests
REL=""; grep -q -- "--release" $SRC/README.md && grep -qiE "(demo command|must be run|needs|requires?|only).*--release|--release.*(required|needed|only)" $SRC/README.md && REL="--release"
[ -n "${FORCE_REL:-}" ] && REL="--release"
export PYO3_PYTHON=/opt/veriftools/pyvenv/bin/python
res_without=""; res_with=""
for D in $DEMOS; do
  # a demo may name its crate in the README per file
  C=$CR; B=$(basename $D .rs)
  L=$(grep -h "$B" $SRC/README.md | grep -oh "crates/[a-z_]*/tests" | head -1); [ -n "$L" ] && C=$L
  mkdir -p $WT/$C; cp $D $WT/$C/seed_$B.rs
  PKG=$( [ "$C" = "crates/order_book/tests" ] && echo bourse-book || echo bourse-de )
  (cd $WT && cargo test -p $PKG --test seed_$B --offline $REL >/tmp/seedconf/$ID.$B.without.log 2>&1) && res_without="$res_without $B:pass" || res_without="$res_without $B:FAIL"
done
(cd $WT && git apply $SRC/patch.diff) || { echo "CONFIRM $ID patch does not apply"; exit 3; }
for D in $DEMOS; do
  C=$CR; B=$(basename $D .rs)
  L=$(grep -h "$B" $SRC/README.md | grep -oh "crates/[a-z_]*/tests" | head -1); [ -n "$L" ] && C=$L
  PKG=$( [ "$C" = "crates/order_book/tests" ] && echo bourse-book || echo bourse-de )
  (cd $WT && cargo test -p $PKG --test seed_$B --offline $REL >/tmp/seedconf/$ID.$B.with.log 2>&1) && res_with="$res_with $B:pass" || res_with="$res_with $B:FAIL"
done
echo "CONFIRM $ID rel=[$REL] without-patch:$res_without | with-patch:$res_with"
git -C /repo worktree remove --force $WT
mkdir -p /verif/seeded/$ID; cp $SRC/patch.diff $SRC/README.md /verif/seeded/$ID/; cp $SRC/*.rs /verif/seeded/$ID/ 2>/dev/null
echo "$res_without|$res_with" > /verif/seeded/$ID/.confirm
